/-
  C14 (heap part) — "A compute that references stored local trust leaves every stored matrix
  exactly as it was … whatever alignment, canonicalisation or discount extraction the compute
  performed."

  Props/C14.lean carries what a pure model can say (a compute returns no new store).  What it
  cannot say is that the IN-PLACE mutations of the working matrix (`Canonicalize`:
  `entries[i].Value /= s`; `ExtractDistrust`: `trustRow[i-k] = entry`; `SetRowVector`: aliasing of
  the pre-trust slice; `SetDim`: reslicing) do not reach the stored matrix through shared memory.
  This file proves it over the explicit heap model of Proofs/Heap.lean:

  1. `heap_refines_pure*`     — every heap operation denotes the pure model's function, so every
                                pure theorem carries over to the heap level;
  2. `pipeline_frame`         — after `deepCopy`, the pipeline leaves every pre-existing cell (hence
                                every stored matrix) unchanged, for every request;
  3. `shallow_copy_witness`   — with a shallow copy it does not: the frame theorem is not vacuous
                                and the deep copy in loadStoredTrustMatrix is what it rests on;
  4. `pretrust_alias_harmless`— rows substituted by the pre-trust vector alias its cell, but that
                                cell is never written.
  All theorems are generic in `{α} [Scalar α]` (they hold for float64 arithmetic as well as for
  exact fields); the witness is at `Rat`.
-/
import EtVerif.Proofs.Heap

namespace EtVerif.C14b
open EtVerif Scalar

variable {α : Type} [Scalar α]

/-! ## 1. The heap operations refine the pure model -/

omit [Scalar α] in
/-- `deepcopy.Copy`: the copy denotes the same matrix, lives in fresh cells (all addresses beyond
    the old heap), its rows share no cell, and nothing that existed is written. -/
theorem heap_refines_pure_deepCopy (h : Heap α) (m : MatRef) :
    (m.InRange h → value (deepCopy h m).1 (deepCopy h m).2 = value h m) ∧
    (deepCopy h m).2.Sep ∧ (deepCopy h m).2.InRange (deepCopy h m).1 ∧
    (∀ a ∈ (deepCopy h m).2.addrs, h.cells.length ≤ a) ∧
    (∀ a < h.cells.length, (deepCopy h m).1.cells[a]? = h.cells[a]?) := by
  obtain ⟨f, fr, nd, v⟩ := deepCopy_spec h m
  exact ⟨v, nd, fun a ha => (fr a ha).2, fun a ha => (fr a ha).1, fun a ha => f.2 a ha (by simp)⟩

omit [Scalar α] in
/-- `SetDim` (alignment) only reslices: the heap is returned as it was and the new reference
    denotes `CSM.setDim` of the old value.  No hypothesis. -/
theorem heap_refines_pure_setDim (h : Heap α) (m : MatRef) (rows cols : Nat) :
    (setDimH h m rows cols).1 = h ∧
    value (setDimH h m rows cols).1 (setDimH h m rows cols).2 = (value h m).setDim rows cols :=
  ⟨rfl, value_setDimRef h m rows cols⟩

/-- `ExtractDistrust` (in-place compaction + fresh distrust rows) denotes `extractDistrust`
    (same error, same pair of matrices), provided the references are in range and distinct rows
    of the row table do not share a cell. -/
theorem heap_refines_pure_extractDistrust (h : Heap α) (m : MatRef)
    (hin : m.InRange h) (hsep : m.Sep) :
    (extractDistrustH h m).map (fun x => (value x.1 x.2.1, value x.1 x.2.2)) =
      extractDistrust (value h m) :=
  extractDistrustH_refines h m hin hsep

/-- `CanonicalizeLocalTrust` (in-place division; zero-sum rows replaced by a reference to the
    pre-trust vector's own cell) denotes `canonicalizeLocalTrust`, provided the row table has
    `major` rows, distinct rows share no cell, and no row's cell is the pre-trust vector's. -/
theorem heap_refines_pure_canonicalizeLocalTrust (h : Heap α) (m : MatRef) (p : Option VecRef)
    (hlen : m.rows.length = m.major) (hsep : m.Sep)
    (hp : ∀ pv ∈ p, ∀ a ∈ pv.row.addr?, a ∉ addrsOf m.rows) :
    (canonicalizeLocalTrustH h m p).map (fun x => value x.1 x.2) =
      canonicalizeLocalTrust (value h m) (p.map (vecValue h)) :=
  canonicalizeLocalTrustH_refines h m p hlen hsep hp

/-- The whole working pipeline of `compute` on a deep copy of a stored matrix denotes the pure
    pipeline applied to the stored VALUE: alignment, `extractDistrust`, `canonicalizeLocalTrust`
    with the pre-trust vector, `canonicalizeLocalTrust` of the discounts — same error or same pair
    (local trust, discounts).  Hypotheses: the stored matrix is well formed (`major` rows,
    references in range); the pre-trust vector's cell exists and is not a cell of the copy. -/
theorem heap_refines_pure (h : Heap α) (stored : MatRef) (dims : List Nat) (p : Option VecRef)
    (hlen : stored.rows.length = stored.major) (hin : stored.InRange h)
    (hp : ∀ pv ∈ p, pv.row.InRange (deepCopy h stored).1 ∧
      ∀ a ∈ pv.row.addr?, a ∉ (deepCopy h stored).2.addrs) :
    (pipelineH (deepCopy h stored).1 (deepCopy h stored).2 dims p).2.map
        (fun cd =>
          (value (pipelineH (deepCopy h stored).1 (deepCopy h stored).2 dims p).1 cd.1,
           value (pipelineH (deepCopy h stored).1 (deepCopy h stored).2 dims p).1 cd.2)) =
      pipelinePure (value h stored) dims (p.map (vecValue (deepCopy h stored).1)) := by
  obtain ⟨-, fr, nd, v⟩ := deepCopy_spec h stored
  obtain ⟨dmaj, -, dlen⟩ := deepCopy_dims h stored
  rw [← v hin]
  exact pipelineH_refines _ _ dims p (by rw [dlen, dmaj, hlen]) (fun a ha => (fr a ha).2) nd hp

/-- special case: a pre-trust vector that was allocated before the copy -/
theorem heap_refines_pure_of_old_pretrust (h : Heap α) (stored : MatRef) (dims : List Nat)
    (p : Option VecRef) (hlen : stored.rows.length = stored.major) (hin : stored.InRange h)
    (hp : ∀ pv ∈ p, pv.row.InRange h) :
    (pipelineH (deepCopy h stored).1 (deepCopy h stored).2 dims p).2.map
        (fun cd =>
          (value (pipelineH (deepCopy h stored).1 (deepCopy h stored).2 dims p).1 cd.1,
           value (pipelineH (deepCopy h stored).1 (deepCopy h stored).2 dims p).1 cd.2)) =
      pipelinePure (value h stored) dims (p.map (vecValue h)) := by
  obtain ⟨f, fr, -, -⟩ := deepCopy_spec h stored
  have hv : p.map (vecValue (deepCopy h stored).1) = p.map (vecValue h) := by
    cases p with
    | none => rfl
    | some pv =>
      simp only [Option.map_some, vecValue, Option.some.injEq, Vec.mk.injEq, true_and]
      exact deref_frame f (hp pv rfl) (by simp)
  rw [← hv]
  refine heap_refines_pure h stored dims p hlen hin (fun pv hpv => ⟨(hp pv hpv).mono f.1, ?_⟩)
  intro a ha hb
  have := hp pv hpv a ha
  have := (fr a hb).1
  omega

/-! ## 2. The frame property -/

/-- **pipeline_frame.**  If the working matrix was obtained by `deepCopy h stored`, then after the
    pipeline every cell that existed in `h` is unchanged — for EVERY stored matrix reference (no
    well-formedness needed), every alignment `dims`, every pre-trust reference `p` (absent, in a
    cell of its own, or even aliasing stored memory), negative entries, empty rows, zero-sum rows,
    and also when the pipeline fails half-way.  Hence every matrix whose references lie in `h`
    (in particular every stored matrix) denotes the same value afterwards. -/
theorem pipeline_frame (h : Heap α) (stored : MatRef) (dims : List Nat) (p : Option VecRef) :
    (∀ a < h.cells.length,
      (pipelineH (deepCopy h stored).1 (deepCopy h stored).2 dims p).1.cells[a]? = h.cells[a]?) ∧
    (∀ m : MatRef, m.InRange h →
      value (pipelineH (deepCopy h stored).1 (deepCopy h stored).2 dims p).1 m = value h m) := by
  obtain ⟨f, fr, -, -⟩ := deepCopy_spec h stored
  have key : ∀ a < h.cells.length,
      (pipelineH (deepCopy h stored).1 (deepCopy h stored).2 dims p).1.cells[a]? = h.cells[a]? := by
    intro a ha
    rw [pipelineH_below _ _ dims p h.cells.length f.1 (fun b hb => (fr b hb).1) a ha]
    exact f.2 a ha (by simp)
  exact ⟨key, fun m hm => value_of_cells_eq (fun a ha => key a (hm a ha))⟩

/-- the same with Go-style indexing (`h'.cells[a] = h.cells[a]`) -/
theorem pipeline_frame_getElem (h : Heap α) (stored : MatRef) (dims : List Nat) (p : Option VecRef)
    (a : Nat) (ha : a < h.cells.length) :
    ∃ ha' : a < (pipelineH (deepCopy h stored).1 (deepCopy h stored).2 dims p).1.cells.length,
      (pipelineH (deepCopy h stored).1 (deepCopy h stored).2 dims p).1.cells[a] = h.cells[a] := by
  have := (pipeline_frame h stored dims p).1 a ha
  rw [List.getElem?_eq_getElem ha] at this
  obtain ⟨ha', e⟩ := List.getElem?_eq_some_iff.mp this
  exact ⟨ha', e⟩

/-- the stored matrix the compute referenced is exactly as it was -/
theorem stored_unchanged (h : Heap α) (stored : MatRef) (dims : List Nat) (p : Option VecRef)
    (hin : stored.InRange h) :
    value (pipelineH (deepCopy h stored).1 (deepCopy h stored).2 dims p).1 stored = value h stored :=
  (pipeline_frame h stored dims p).2 stored hin

/-- … and so is every other stored matrix (a store is a list of named matrix references) -/
theorem store_unchanged (h : Heap α) (store : List (String × MatRef)) (stored : MatRef)
    (dims : List Nat) (p : Option VecRef) (hin : ∀ e ∈ store, e.2.InRange h) :
    store.map (fun e => (e.1, value (pipelineH (deepCopy h stored).1 (deepCopy h stored).2 dims p).1 e.2))
      = store.map (fun e => (e.1, value h e.2)) := by
  apply List.map_congr_left
  intro e he
  rw [(pipeline_frame h stored dims p).2 e.2 (hin e he)]

/-- the frame in terms of `copyMat`: the `deep` mode is safe -/
theorem pipeline_frame_deep_mode (h : Heap α) (stored : MatRef) (dims : List Nat) (p : Option VecRef)
    (hin : stored.InRange h) :
    value (pipelineH (copyMat .deep h stored).1 (copyMat .deep h stored).2 dims p).1 stored =
      value h stored :=
  stored_unchanged h stored dims p hin

/-! ## 3. The shallow copy is not safe: a witness at `Rat` -/

-- the witness data `wHeap`, `wStored`, `wP` and the observers `showRows`, `showCells` are defined
-- at the end of Proofs/Heap.lean

/-- with a shallow copy the stored row got canonicalised in place -/
theorem shallow_copy_witness_rows :
    showRows (value (pipelineH (copyMat .shallow wHeap wStored).1
      (copyMat .shallow wHeap wStored).2 [] (some wP)).1 wStored) = [[(0, 1/2), (1, 1/2)], []] ∧
    showRows (value wHeap wStored) = [[(0, 2), (1, 2)], []] := by
  decide +kernel

/-- **shallow_copy_witness.**  A well-formed heap, stored matrix (in range, rows separated, no
    negative entries) and request for which the pipeline on a SHALLOW copy changes the value of
    the stored matrix. -/
theorem shallow_copy_witness :
    ∃ (h : Heap Rat) (stored : MatRef) (dims : List Nat) (p : Option VecRef),
      stored.InRange h ∧ stored.Sep ∧ stored.rows.length = stored.major ∧
      (∀ pv ∈ p, pv.row.InRange h ∧ ∀ a ∈ pv.row.addr?, a ∉ stored.addrs) ∧
      (∀ r ∈ (value h stored).rows, ∀ e ∈ r, (0 : Rat) ≤ e.val) ∧
      value (pipelineH (copyMat .shallow h stored).1 (copyMat .shallow h stored).2 dims p).1 stored
        ≠ value h stored := by
  refine ⟨wHeap, wStored, [], some wP, by decide, by decide, by decide, ?_, ?_, ?_⟩
  · intro pv hpv
    simp only [Option.mem_def, Option.some.injEq] at hpv
    subst hpv
    decide
  · intro r hr e he
    simp only [value, wStored, wHeap, deref, Heap.cell, List.map_cons, List.map_nil,
      List.mem_cons, List.not_mem_nil, or_false] at hr
    rcases hr with rfl | rfl
    · simp only [List.getElem?_cons_zero, Option.getD_some, List.take, List.mem_cons,
        List.not_mem_nil, or_false] at he
      rcases he with rfl | rfl <;> decide
    · simp at he
  · intro H
    have h1 := shallow_copy_witness_rows
    rw [H] at h1
    exact absurd (h1.1.symm.trans h1.2) (by decide +kernel)

/-- on the SAME input the deep copy protects the stored matrix (instance of `pipeline_frame`,
    checked here by evaluation), and the two modes compute the same local trust and discounts -/
example :
    showRows (value (pipelineH (copyMat .deep wHeap wStored).1
      (copyMat .deep wHeap wStored).2 [] (some wP)).1 wStored) = [[(0, 2), (1, 2)], []] := by
  decide +kernel

/-! ## 4. Aliasing of the pre-trust vector is harmless -/

/-- **pretrust_alias_harmless.**  `CanonicalizeLocalTrust(c, p)` makes every zero-sum row of `c` a
    reference to `p`'s own cell.  The loop canonicalises row `i` BEFORE a possible substitution at
    `i` and visits each index once (`canonLoopH_eq_take`), so — as long as `p`'s cell was not a row
    of `c` to begin with — the cell is never written: it is unchanged and `p` denotes the same
    vector afterwards.  (No other hypothesis: arbitrary dimensions, aliasing among the rows of `c`.) -/
theorem pretrust_alias_harmless (h : Heap α) (m : MatRef) (pv : VecRef)
    (hpa : ∀ a ∈ pv.row.addr?, a ∉ addrsOf m.rows)
    (x : Heap α × MatRef) (hx : canonicalizeLocalTrustH h m (some pv) = .ok x) :
    (∀ a ∈ pv.row.addr?, x.1.cells[a]? = h.cells[a]?) ∧ vecValue x.1 pv = vecValue h pv := by
  obtain ⟨f, l, -, -⟩ := canonicalizeLocalTrustH_frame h m (some pv) x hx
  have hv : deref x.1 pv.row = deref h pv.row := deref_frame' f l hpa
  refine ⟨fun a ha => ?_, by simp [vecValue, hv]⟩
  by_cases hlt : a < h.cells.length
  · exact f.2 a hlt (hpa a ha)
  · rw [List.getElem?_eq_none (by omega), List.getElem?_eq_none (by omega)]

/-- the same through the whole pipeline (extraction, both canonicalisations, any alignment):
    a pre-trust vector living in a cell of its own is never written. -/
theorem pretrust_unchanged_by_pipeline (h : Heap α) (m : MatRef) (dims : List Nat) (pv : VecRef)
    (hin : pv.row.InRange h) (hpa : ∀ a ∈ pv.row.addr?, a ∉ m.addrs) :
    (∀ a ∈ pv.row.addr?, (pipelineH h m dims (some pv)).1.cells[a]? = h.cells[a]?) ∧
    vecValue (pipelineH h m dims (some pv)).1 pv = vecValue h pv := by
  have key : ∀ a ∈ pv.row.addr?, (pipelineH h m dims (some pv)).1.cells[a]? = h.cells[a]? :=
    fun a ha => (pipelineH_frame h m dims (some pv)).2 a (hin a ha) (hpa a ha)
  refine ⟨key, ?_⟩
  cases hr : pv.row with
  | nil => simp [vecValue, hr, deref]
  | slice a l =>
    have := key a (by simp [hr, RowRef.addr?])
    simp [vecValue, hr, deref, Heap.cell, this]

/-- non-vacuity: in the witness the zero-sum row 1 really is substituted by a reference to the
    pre-trust cell (address 1), and that cell is unchanged although row 0 was divided in place -/
example :
    (pipelineH wHeap wStored [] (some wP)).2.toOption.map (fun cd => cd.1.rows) =
      some [.slice 0 2, .slice 1 2] ∧
    showCells (pipelineH wHeap wStored [] (some wP)).1 =
      [[(0, 1/2), (1, 1/2)], [(0, 1/2), (1, 1/2)]] := by
  decide +kernel

/-! ## Non-vacuity of the hypotheses, and why they are needed -/

/-- the hypotheses of `heap_refines_pure` hold for the witness input -/
example : wStored.rows.length = wStored.major ∧ wStored.InRange wHeap ∧
    (∀ pv ∈ some wP, pv.row.InRange (deepCopy wHeap wStored).1 ∧
      ∀ a ∈ pv.row.addr?, a ∉ (deepCopy wHeap wStored).2.addrs) := by
  refine ⟨by decide, by decide, ?_⟩
  intro pv hpv
  simp only [Option.mem_def, Option.some.injEq] at hpv
  subst hpv
  decide

/-- … and of the per-operation refinements -/
example : wStored.InRange wHeap ∧ wStored.Sep ∧ wStored.rows.length = wStored.major ∧
    (∀ a ∈ wP.row.addr?, a ∉ addrsOf wStored.rows) := by decide

/-- a request that aligns (grow to 3, negative entry, zero-sum rows): the deep-copy pipeline
    succeeds, extracts the negative entry into a fresh cell, and the old cells are as before -/
example :
    let h : Heap Rat := ⟨[[⟨0, 3⟩, ⟨1, -1⟩], [⟨0, 1/2⟩, ⟨2, 1/2⟩]]⟩
    let r := pipelineH (deepCopy h wStored).1 (deepCopy h wStored).2 [3] (some ⟨3, .slice 1 2⟩)
    r.2.toOption.map (fun cd => (showRows (value r.1 cd.1), showRows (value r.1 cd.2))) =
      some ([[(0, 1)], [(0, 1/2), (2, 1/2)], [(0, 1/2), (2, 1/2)]], [[(1, 1)], [], []]) ∧
    (showCells r.1).take 2 = showCells h := by
  decide +kernel

/-- why `Sep` is needed in `heap_refines_pure_canonicalizeLocalTrust`: two rows sharing a cell
    (`[(0,2),(1,2)]` and its prefix `[(0,2)]`) — the second in-place division also changes the
    first row, and the heap result differs from the pure one. -/
theorem sep_needed :
    let h : Heap Rat := ⟨[[⟨0, 2⟩, ⟨1, 2⟩]]⟩
    let m : MatRef := ⟨2, 2, [.slice 0 2, .slice 0 1], []⟩
    (canonicalizeLocalTrustH h m none).toOption.map (fun x => showRows (value x.1 x.2)) =
      some [[(0, 1), (1, 1/2)], [(0, 1)]] ∧
    (canonicalizeLocalTrust (value h m) none).toOption.map showRows =
      some [[(0, 1/2), (1, 1/2)], [(0, 1)]] := by
  decide +kernel

end EtVerif.C14b
