/-
  C06 — Results are bit-for-bit deterministic and schedule independent: the parallel
  matrix-vector product equals the row-by-row sequential product exactly, with entries in
  index order.

  Property theorems only.  The goroutine transition system (`Cfg`, `St`, `Step`, `Reach`), its
  invariants and the sorting lemmas live in Proofs/MulVecConc.lean and Proofs/SortPerm.lean.

  Reading guide: `Reach ⟨shape, dim, w, prod, isZ, sortFn⟩ s` = state `s` is reachable from the
  initial state of a `MulVec` call with `dim` rows and `w` workers under ANY interleaving of
  producer, workers, closer, collector and (any number of) `ctx` cancellations;
  `prod r` = the value of ONE sequential `VecDot(m.RowVector(r), v1)`; `isZ` = `== 0`;
  `sortFn` = `sort.Sort(EntriesByIndex(·))`, of which only `IsSortFn` (a sorted permutation) is used.
-/
import EtVerif.Proofs.MulVecConc
import EtVerif.Gen.Facts

namespace EtVerif.C06
open EtVerif EtVerif.MulVecConc

variable {β : Type}

/-! ### 1. the collected multiset determines the published list -/

/-- Whatever order the entries arrive in, sorting them gives the sequential list: `arr` is any
    permutation of the tagged non-zero row products. -/
theorem collect_perm_invariant (dim : Nat) (prod : Nat → β) (isZ : β → Bool)
    (sortFn : List (Nat × β) → List (Nat × β)) (hs : IsSortFn sortFn) (arr : List (Nat × β))
    (harr : arr.Perm (((List.range dim).map (fun r => (r, prod r))).filter (fun x => !isZ x.2))) :
    sortFn arr = ((List.range dim).map (fun r => (r, prod r))).filter (fun x => !isZ x.2) :=
  sortFn_eq_seqList hs dim prod isZ arr harr

/-- The same when the zero products are dropped after permuting (as the collector does). -/
theorem collect_perm_invariant' (dim : Nat) (prod : Nat → β) (isZ : β → Bool)
    (sortFn : List (Nat × β) → List (Nat × β)) (hs : IsSortFn sortFn) (arr : List (Nat × β))
    (harr : arr.Perm ((List.range dim).map (fun r => (r, prod r)))) :
    sortFn (arr.filter (fun x => !isZ x.2)) =
      ((List.range dim).map (fun r => (r, prod r))).filter (fun x => !isZ x.2) :=
  sortFn_eq_seqList hs dim prod isZ _ (perm_filter_of_perm_full isZ harr)

/-- The hypothesis on the sort is satisfiable: insertion sort is a sorted permutation, and so is
    the executable model's `sortByIdx` (transported to tagged pairs). -/
theorem sort_hypothesis_satisfiable {α : Type} :
    IsSortFn (isortFst (β := β)) ∧ IsSortFn (sortByIdxPairs (α := α)) :=
  ⟨isortFst_isSortFn, sortByIdxPairs_isSortFn⟩

/-- Exact correspondence with the model: with `prod r := vecDot (rows.getD r []) v` and
    `isZ := Scalar.isZero`, the sequential list of tagged pairs IS `mulVecEntries rows v`
    (pair `(i, x)` ↔ `Entry.mk i x`), over any `Scalar`. -/
theorem seq_is_mulVecEntries {α : Type} [Scalar α] (rows : List (Row α)) (v : List (Entry α)) :
    (((List.range rows.length).map (fun r => (r, vecDot (rows.getD r []) v))).filter
        (fun x => !Scalar.isZero x.2)).map (fun p => (⟨p.1, p.2⟩ : Entry α)) =
      mulVecEntries rows v ∧
    (mulVecEntries rows v).map (fun e => (e.idx, e.val)) =
      ((List.range rows.length).map (fun r => (r, vecDot (rows.getD r []) v))).filter
        (fun x => !Scalar.isZero x.2) :=
  ⟨(mulVecEntries_eq_seqList rows v).symm, (seqList_eq_mulVecEntries rows v).symm⟩

/-- Model-level form: the model's `sortByIdx` applied to ANY permutation of the sequential
    product returns the sequential product. -/
theorem sortByIdx_of_perm_mulVecEntries {α : Type} [Scalar α] (rows : List (Row α))
    (v : List (Entry α)) (es : List (Entry α)) (h : es.Perm (mulVecEntries rows v)) :
    sortByIdx es = mulVecEntries rows v := by
  have h1 : (es.map ofEntry).Perm (seqList rows.length (rowProd rows v) (fun x => Scalar.isZero x)) := by
    rw [seqList_eq_mulVecEntries]; exact h.map _
  have h2 := sortFn_eq_seqList (sortByIdxPairs_isSortFn (α := α)) _ _ _ _ h1
  unfold sortByIdxPairs at h2
  rw [map_toEntry_map_ofEntry] at h2
  have h3 := congrArg (List.map toEntry) h2
  rw [map_toEntry_map_ofEntry, ← mulVecEntries_eq_seqList] at h3
  exact h3

/-! ### 2. schedule independence -/

/-- For a shape with `deterministicCollect`, any number of rows, any `w ≥ 1` workers and any
    interleaving: if `ctx` has not been cancelled and the collector has returned, it returned
    `nil` and the receiver holds exactly the sequential product, in index order. -/
theorem mulVec_schedule_independent (shape : MulVecShape) (dim w : Nat) (prod : Nat → β)
    (isZ : β → Bool) (sortFn : List (Nat × β) → List (Nat × β))
    (hdet : shape.deterministicCollect = true) (hs : IsSortFn sortFn) (hw : 1 ≤ w)
    (s : St β) (hr : Reach ⟨shape, dim, w, prod, isZ, sortFn⟩ s) (hnc : s.cancelled = false)
    (r : Except Unit (List (Nat × β))) (hres : s.result = some r) :
    r = .ok (((List.range dim).map (fun r => (r, prod r))).filter (fun x => !isZ x.2)) ∧
    s.out = some (((List.range dim).map (fun r => (r, prod r))).filter (fun x => !isZ x.2)) := by
  have g := good_of_reach (detHyp_of hdet dim w prod isZ hs hw) hr
  have key : ∀ l, s.result = some (.ok l) → l = seqList dim prod isZ := by
    intro l hl
    rcases g.rinv.ok_seq l hl with h | h
    · exact h
    · rw [hnc] at h; exact absurd h.2 (by simp)
  cases r with
  | error e =>
    cases e
    have := g.rinv.err_cancelled hres
    rw [hnc] at this; exact absurd this (by simp)
  | ok l =>
    have hl := key l hres
    subst hl
    exact ⟨rfl, g.rinv.out_ok _ hres⟩

/-- The same with the worker count of the shape itself (32 in the source). -/
theorem mulVec_schedule_independent_numWorkers (shape : MulVecShape) (dim : Nat) (prod : Nat → β)
    (isZ : β → Bool) (sortFn : List (Nat × β) → List (Nat × β))
    (hdet : shape.deterministicCollect = true) (hs : IsSortFn sortFn)
    (s : St β) (hr : Reach ⟨shape, dim, shape.numWorkers, prod, isZ, sortFn⟩ s)
    (hnc : s.cancelled = false) (r : Except Unit (List (Nat × β))) (hres : s.result = some r) :
    r = .ok (((List.range dim).map (fun r => (r, prod r))).filter (fun x => !isZ x.2)) :=
  (mulVec_schedule_independent shape dim shape.numWorkers prod isZ sortFn hdet hs
    (numWorkers_of_det hdet) s hr hnc r hres).1

/-- Model-level form, over any `Scalar`: every uncancelled schedule of the parallel code
    publishes exactly `mulVecEntries m.rows v` (the sequential model), with the model's sort. -/
theorem mulVec_schedule_independent_model {α : Type} [Scalar α] (shape : MulVecShape)
    (rows : List (Row α)) (v : List (Entry α)) (w : Nat)
    (hdet : shape.deterministicCollect = true) (hw : 1 ≤ w) (s : St α)
    (hr : Reach ⟨shape, rows.length, w, fun r => vecDot (rows.getD r []) v,
      fun x => Scalar.isZero x, sortByIdxPairs⟩ s)
    (hnc : s.cancelled = false) (r : Except Unit (List (Nat × α))) (hres : s.result = some r) :
    ∃ l, r = .ok l ∧ l.map (fun p => (⟨p.1, p.2⟩ : Entry α)) = mulVecEntries rows v := by
  obtain ⟨h1, _⟩ := mulVec_schedule_independent shape rows.length w _ _ _ hdet
    sortByIdxPairs_isSortFn hw s hr hnc r hres
  exact ⟨_, h1, (seq_is_mulVecEntries rows v).1⟩

/-- Tie to the source: the shape `tools/gofacts` extracted from /repo has every structural fact
    the determinism argument needs (re-checked against the regenerated `Gen/Facts.lean`). -/
theorem source_deterministicCollect : Facts.mulVecShape.deterministicCollect = true := by decide

/-- Schedule independence of the source as extracted: its shape, its worker count, the model's
    `vecDot`, zero test and sort. -/
theorem mulVec_schedule_independent_source {α : Type} [Scalar α] (rows : List (Row α))
    (v : List (Entry α)) (s : St α)
    (hr : Reach ⟨Facts.mulVecShape, rows.length, Facts.mulVecShape.numWorkers,
      fun r => vecDot (rows.getD r []) v, fun x => Scalar.isZero x, sortByIdxPairs⟩ s)
    (hnc : s.cancelled = false) (r : Except Unit (List (Nat × α))) (hres : s.result = some r) :
    ∃ l, r = .ok l ∧ l.map (fun p => (⟨p.1, p.2⟩ : Entry α)) = mulVecEntries rows v :=
  mulVec_schedule_independent_model Facts.mulVecShape rows v _ source_deterministicCollect
    (numWorkers_of_det source_deterministicCollect) s hr hnc r hres

/-! ### 3. no deadlock, termination -/

/-- While the collector has not returned, some goroutine (not the environment) can move —
    in every reachable state, cancelled or not. -/
theorem mulVec_no_deadlock (shape : MulVecShape) (dim w : Nat) (prod : Nat → β)
    (isZ : β → Bool) (sortFn : List (Nat × β) → List (Nat × β))
    (hclose : shape.producerClosesJobs = true) (hjc : shape.jobsCap = .dim)
    (hec : shape.entriesCap = .dim) (s : St β)
    (hr : Reach ⟨shape, dim, w, prod, isZ, sortFn⟩ s) (hres : s.result = none) :
    ∃ a s', a ≠ Actor.env ∧ Step ⟨shape, dim, w, prod, isZ, sortFn⟩ a s s' :=
  no_deadlock ⟨hclose, hjc, hec⟩ hr hres

/-- Every non-environment step strictly decreases a natural-number work: every execution
    performs finitely many goroutine steps (at most `work` of the initial state). -/
theorem mulVec_terminates (shape : MulVecShape) (dim w : Nat) (prod : Nat → β)
    (isZ : β → Bool) (sortFn : List (Nat × β) → List (Nat × β)) (a : Actor) (s s' : St β)
    (hstep : Step ⟨shape, dim, w, prod, isZ, sortFn⟩ a s s') (ha : a ≠ Actor.env) :
    work ⟨shape, dim, w, prod, isZ, sortFn⟩ s' < work ⟨shape, dim, w, prod, isZ, sortFn⟩ s :=
  work_step hstep ha

/-- the work of the initial state: an explicit bound on the number of goroutine steps -/
theorem mulVec_steps_bound (shape : MulVecShape) (dim w : Nat) (prod : Nat → β)
    (isZ : β → Bool) (sortFn : List (Nat × β) → List (Nat × β)) :
    work ⟨shape, dim, w, prod, isZ, sortFn⟩ (init ⟨shape, dim, w, prod, isZ, sortFn⟩) =
      4 * dim + w + 3 := by
  simp [work, workNC, init]; omega

/-! ### non-vacuity -/

/-- the hypotheses are satisfiable by a concrete shape and sort -/
example : safeShape.deterministicCollect = true ∧ IsSortFn (isortFst (β := Nat)) ∧
    safeShape.producerClosesJobs = true ∧ safeShape.jobsCap = .dim ∧ safeShape.entriesCap = .dim :=
  ⟨by decide, isortFst_isSortFn, rfl, rfl, rfl⟩

/-- a concrete complete uncancelled run (2 rows, 2 workers) in which row 1 overtakes row 0:
    the collector's slice is `[(1,2),(0,1)]`, the published list `[(0,1),(1,2)]` -/
example : ∃ s, Reach exCfg s ∧ s.cancelled = false ∧ s.got = [(1, 2), (0, 1)] ∧
    s.result = some (.ok [(0, 1), (1, 2)]) ∧ s.out = some [(0, 1), (1, 2)] ∧ AllDone exCfg s :=
  exCfg_run

/-- `collect_perm_invariant` on the out-of-order arrival of that run -/
example : isortFst [((1 : Nat), (2 : Nat)), (0, 1)] = [(0, 1), (1, 2)] := by decide

end EtVerif.C06
