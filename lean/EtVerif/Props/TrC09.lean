/-
  TrC09 — the CURRENT SOURCE of the sparse-vector kernels of pkg/sparse, translated statement by
  statement by tools/go2lean on every run (Gen/Translated.lean), computes exactly what the
  hand-written model computes.  Together with Props/C09 (the model denotes dense arithmetic) this
  ties the C09 theorems to the code by proof, not only by sampling: a change to one of these Go
  functions regenerates its Lean definition and the refinement below has to be re-proved.

  Each theorem: for every input (sorted or not), every capacity behaviour `capO`, every fuel above the
  stated bound (so termination is part of the statement), for an arbitrary `Scalar` (hence at Float,
  Rat and every ordered field alike):  translated Go function = model function, no panic.
  Property theorems only; proofs live in Proofs/Tr*.lean.

  Modelled, not verified, by the translation: see Model/GoSem.lean (value semantics — no aliasing
  between slices / pointer parameters, no capacity, unbounded ints).
-/
import EtVerif.Proofs.TrAddSub
import EtVerif.Proofs.TrScale
import EtVerif.Proofs.TrVecDot
import EtVerif.Proofs.TrVecSmall
import EtVerif.Proofs.TrScaleVec
import EtVerif.Proofs.TrSetDim
import EtVerif.Proofs.FieldScalar

namespace EtVerif.TrC09
open EtVerif EtVerif.GoSem EtVerif.Gen EtVerif.Tr Scalar

variable {α : Type} [Scalar α]

set_option linter.unusedSectionVars false

/-- util.go `KBNSummer.Add` = `KBN.push`. -/
theorem kbn_add (k : KBN α) (x : α) :
    (KBNSummer_Add (toGK k) x).map (fun r => r.1.s) = .ok (toGK (k.push x)) :=
  KBNSummer_Add_refines k x

/-- util.go `KBNSummer.Sum` = `KBN.result`. -/
theorem kbn_sum (k : KBN α) : (KBNSummer_Sum (toGK k)).map (fun r => r.2) = .ok k.result :=
  KBNSummer_Sum_refines k

/-- vector.go `Vector.Sum` = `Vec.sum` (compensated sum of the stored values, in order). -/
theorem vector_sum (v : Vec α) : (Vector_Sum (toGV v)).map (fun r => r.2) = .ok v.sum :=
  Vector_Sum_refines v

/-- vector.go `Vector.AddVec` = `Vec.addVec`: same merge, same dimension check, receiver overwritten
    only on success. -/
theorem addVec (capO : Nat → Int) (fuel : Nat) (w : GVector α) (v1 v2 : Vec α)
    (hf : v1.entries.length + v2.entries.length ≤ fuel) :
    (Vector_AddVec capO fuel w (toGV v1) (toGV v2)).map (fun r => (r.1.v, r.2)) =
      (match v1.addVec v2 with
       | .ok r => .ok (toGV r, none)
       | .error _ => .ok (w, some ⟨"ErrDimensionMismatch"⟩)) :=
  Vector_AddVec_refines capO fuel w v1 v2 hf

/-- vector.go `Vector.SubVec` = `Vec.subVec`. -/
theorem subVec (capO : Nat → Int) (fuel : Nat) (w : GVector α) (v1 v2 : Vec α)
    (hf : v1.entries.length + v2.entries.length ≤ fuel) :
    (Vector_SubVec capO fuel w (toGV v1) (toGV v2)).map (fun r => (r.1.v, r.2)) =
      (match v1.subVec v2 with
       | .ok r => .ok (toGV r, none)
       | .error _ => .ok (w, some ⟨"ErrDimensionMismatch"⟩)) :=
  Vector_SubVec_refines capO fuel w v1 v2 hf

/-- vector.go `Vector.scaleInPlace` = `scaleEntries` (in-place compaction of products equal to zero). -/
theorem scaleInPlace (v : Vec α) (a : α) :
    (Vector_scaleInPlace (toGV v) a).map (fun r => r.1.v) = .ok (toGV ⟨v.dim, scaleEntries a v.entries⟩) :=
  Vector_scaleInPlace_refines v a

/-- vector.go `Vector.ScaleVec` = `Vec.scale` (a == 0 clears; otherwise copy unless the operand IS the
    receiver — the pointer comparison `v1 != v` is the Boolean `al`, decided at each call site —, then scale
    in place). -/
theorem scaleVec (w : GVector α) (a : α) (v1 : Vec α) (al : Bool) (hal : al = true → w = toGV v1) :
    (Gen.Vector_ScaleVec w a (toGV v1) al).map (fun r => r.1.v) = .ok (toGV (Vec.scale a v1)) :=
  Vector_ScaleVec_refines w a v1 al hal

/-- vector.go `VecDot` = `vecDot`, provided `0 + 0 = 0` in the scalar (needed only when the second operand
    is empty: Go returns the literal 0, the model an empty compensated sum). -/
theorem vecDot_partial (fuel : Nat) (v1 v2 : Vec α) (hf : v2.entries.length ≤ fuel)
    (h0 : v2.entries = [] → add (zero : α) zero = zero) :
    (Gen.VecDot fuel (toGV v1) (toGV v2)).map (fun r => r.2) = .ok (vecDot v1.entries v2.entries) :=
  VecDot_refines_partial fuel v1 v2 hf h0

/-- …and that hypothesis is exactly what is needed (the statement without it is refuted by
    `Tr.VecDot_refines_false` on a law-free `Scalar Bool`). -/
theorem vecDot_iff (fuel : Nat) (v1 v2 : Vec α) (hf : v2.entries.length ≤ fuel) :
    ((Gen.VecDot fuel (toGV v1) (toGV v2)).map (fun r => r.2) = .ok (vecDot v1.entries v2.entries)) ↔
      (v2.entries = [] → add (zero : α) zero = zero) :=
  VecDot_refines_iff fuel v1 v2 hf

/-- At the proof instance (any ordered field, in particular the exact tier's ℚ) the hypothesis holds:
    the translated `VecDot` is the model's `vecDot` outright. -/
theorem vecDot_field {K : Type} [Field K] [LinearOrder K] (fuel : Nat) (v1 v2 : Vec K)
    (hf : v2.entries.length ≤ fuel) :
    (Gen.VecDot fuel (toGV v1) (toGV v2)).map (fun r => r.2) = .ok (vecDot v1.entries v2.entries) :=
  VecDot_refines_partial fuel v1 v2 hf (fun _ => by simp)

/-- vector.go `Vector.Assign`, `Clone`, `Reset`. -/
theorem assign (w : GVector α) (v1 : Vec α) :
    (Vector_Assign w (toGV v1)).map (fun r => r.1.v) = .ok (toGV v1) :=
  Vector_Assign_refines w v1

theorem clone (v : Vec α) : (Vector_Clone (toGV v)).map (fun r => r.2) = .ok (toGV v) :=
  Vector_Clone_refines v

theorem reset (w : GVector α) :
    (Vector_Reset w).map (fun r => r.1.v) = .ok (toGV (⟨0, []⟩ : Vec α)) :=
  Vector_Reset_refines w

/-- vector.go `Vector.SetDim` (binary search + truncation) = `Vec.setDim` (`takeWhile`) on index-sorted
    entries. -/
theorem setDim (v : Vec α) (d : Nat) (hs : sortedStrict v.entries = true) :
    (Vector_SetDim (toGV v) (d : Int)).map (fun r => r.1.v) = .ok (toGV (v.setDim d)) :=
  Vector_SetDim_refines v d hs

/-- non-vacuity: a concrete pair of vectors meets the hypotheses of `addVec`, `setDim`. -/
example : ([⟨0, 1⟩, ⟨2, 3⟩] : List (Entry Rat)).length + ([⟨1, 5⟩] : List (Entry Rat)).length ≤ 3 ∧
    sortedStrict ([⟨0, 1⟩, ⟨2, 3⟩] : List (Entry Rat)) = true := by decide

end EtVerif.TrC09
