/-
  C02 — "Given canonical inputs (every row of C, the pre-trust and the initial vector are
  non-negative and sum to 1), the vector returned after any number of iterations - converged or
  cut off by an iteration limit, with any initial vector and check schedule - has only finite
  non-negative entries that sum to 1 within rounding, has the input dimension, and lists each
  peer at most once in increasing index order."

  Stated for exact arithmetic in an arbitrary linearly ordered field `K` (so: every entry is an
  element of the field, non-negative, and the entries sum to exactly 1).
  Property theorems only; helper lemmas live in Proofs/StepRefine.lean.

  Vocabulary:
  * `WF n es`      = indices strictly increasing and all `< n` (each peer at most once, in order);
  * `Dist n es`    = `WF n es`, every stored value `≥ 0`, stored values sum to 1;
  * `Canon n c p`  = `c` is a well-formed `n × n` matrix with non-negative stored values and every
                     row summing to 1, `p` has dimension `n` and `Dist n p.entries`;
  * `denE es i`    = dense value of `es` at `i`; `denRows rows i j` = dense cell `(i, j)`;
  * `stepEntries ct ap q t` = one loop body `t ← q·(ct t) + ap` (eigentrust.go 278-286);
  * `iterate ct ap q k t0`  = `(stepEntries ct ap q)^[k] t0`.
-/
import EtVerif.Proofs.StepRefine
import EtVerif.Props.C05

namespace EtVerif.C02
open EtVerif Scalar

variable {K : Type} [Field K] [LinearOrder K]

/-! ## 1. the sparse step refines the dense map `t ↦ (1-a)·Cᵀt + a·p` -/

/-- For a well-formed matrix `c` and an index-sorted current vector `t`, the vector produced by
    one loop body denotes `(1-a)·Cᵀt + a·p` at every index `j` — for every `a` (`a = 1`: the
    product is cleared; `a = 0`: `a·p` is the empty vector) and every `p`. -/
theorem step_den (c : CSM K) (hw : WFM c) (p : Vec K) (a : K) (t : List (Entry K))
    (ht : Sorted t) (j : Nat) :
    denE (stepEntries c.transpose.rows (Vec.scale a p).entries (1 - a) t) j
      = (1 - a) * (∑ i ∈ Finset.range c.major, denRows c.rows i j * denE t i)
        + a * denE p.entries j :=
  SR.step_den hw p a ht j

/-! ## 2. each peer at most once, in increasing index order -/

/-- The result of one loop body is well-formed for dimension `n` (strictly increasing indices,
    all `< n`) as soon as the matrix has `n` columns and the pre-trust vector is well-formed for
    `n` — whatever the current vector, the stored values and `a` are. -/
theorem step_wf (n : Nat) (c : CSM K) (hmin : c.minor = n) (p : Vec K) (hd : p.dim = n)
    (hp : WF n p.entries) (a : K) (t : List (Entry K)) :
    WF n (stepEntries c.transpose.rows (Vec.scale a p).entries (1 - a) t) :=
  SR.step_wf hmin hd hp a t

/-! ## 3. one step keeps distributions -/

variable [IsStrictOrderedRing K]

/-- **Core of C02.**  With canonical `c`, `p` and `0 ≤ a ≤ 1` (including `a = 0` and `a = 1`), one
    loop body maps a distribution to a distribution: well-formed, non-negative, sum exactly 1. -/
theorem step_mass (n : Nat) (c : CSM K) (p : Vec K) (hc : Canon n c p) (a : K)
    (ha0 : 0 ≤ a) (ha1 : a ≤ 1) (t : List (Entry K)) (ht : Dist n t) :
    Dist n (stepEntries c.transpose.rows (Vec.scale a p).entries (1 - a) t) :=
  SR.step_mass hc ha0 ha1 ht

/-- Explicit zeros: under the same hypotheses every stored value of the result is strictly
    positive, except that for `a = 1` the stored zeros of the pre-trust vector (if it has any)
    are handed through (`ScaleVec(1, p)` keeps `p` as it is). -/
theorem step_zero_origin (n : Nat) (c : CSM K) (p : Vec K) (hc : Canon n c p) (a : K)
    (ha0 : 0 ≤ a) (ha1 : a ≤ 1) (t : List (Entry K)) (ht : Dist n t) (x : Entry K)
    (hx : x ∈ stepEntries c.transpose.rows (Vec.scale a p).entries (1 - a) t)
    (hz : x.val = 0) : a = 1 ∧ x ∈ p.entries :=
  SR.step_zero_origin hc ha0 ha1 ht hx hz

/-! ## 4. every iterate, and every vector returned by `Compute`, is a distribution -/

/-- Library level: all iterates of a distribution are distributions. -/
theorem iterate_distribution (n : Nat) (c : CSM K) (p : Vec K) (hc : Canon n c p) (a : K)
    (ha0 : 0 ≤ a) (ha1 : a ≤ 1) (t0 : List (Entry K)) (ht0 : Dist n t0) (k : Nat) :
    Dist n ((stepEntries c.transpose.rows (Vec.scale a p).entries (1 - a))^[k] t0) :=
  SR.iterate_dist hc ha0 ha1 ht0 k

/-- **C02 at the level of `Compute`.**  Canonical `c`, `p`; the initial vector, when one is
    given, is a distribution (its dimension is validated by `compute` itself, as are
    `0 ≤ a ≤ 1`).  Then *every* successful `compute` — any fuel, check schedule
    (`minIterations`, `checkFreq`), iteration limit, flat-tail setting, `epsilon`, and whether it
    ended by the criteria, the iteration limit or the fuel — returns a vector of dimension `n`
    that is a distribution: indices strictly increasing and `< n`, every stored value `≥ 0`,
    stored values summing to exactly 1. -/
theorem compute_distribution (n fuel : Nat) (c : CSM K) (p : Vec K) (a e : K)
    (o : ComputeOpts K) (hc : Canon n c p)
    (ht0 : ∀ t0, o.t0 = some t0 → Dist n t0.entries)
    (r : ComputeResult K) (h : compute fuel c p a e o = .ok r) :
    r.t.dim = n ∧ Dist n r.t.entries := by
  obtain ⟨hv, ht, _⟩ := C05.compute_spec fuel c p a e o r h
  have ha0 : 0 ≤ a := by
    have := hv.2.2.2.2.2.1
    simpa using this
  have ha1 : a ≤ 1 := by
    have := hv.2.2.2.2.2.2.1
    simpa using this
  have hstart : Dist n (o.t0.getD p).entries := by
    cases h0 : o.t0 with
    | none => exact hc.dist
    | some t0 => exact ht0 t0 h0
  rw [ht]
  exact ⟨hc.1, SR.iterate_dist hc ha0 ha1 hstart r.iters⟩

/-- … in particular `Vector.Sum` (the compensated sum the Go code computes) of the returned
    vector is exactly 1. -/
theorem compute_sum_one (n fuel : Nat) (c : CSM K) (p : Vec K) (a e : K)
    (o : ComputeOpts K) (hc : Canon n c p)
    (ht0 : ∀ t0, o.t0 = some t0 → Dist n t0.entries)
    (r : ComputeResult K) (h : compute fuel c p a e o = .ok r) :
    Vec.sum r.t = 1 := by
  unfold Vec.sum
  rw [kbnSum_eq_sum]
  exact (compute_distribution n fuel c p a e o hc ht0 r h).2.2.2

/-! ## non-vacuity: two peers trusting each other, uniform pre-trust, over ℚ -/

section examples
attribute [local instance 10000] fieldScalar

/-- `C = [[0,1],[1,0]]` -/
private def c2 : CSM ℚ := ⟨2, 2, [[⟨1, 1⟩], [⟨0, 1⟩]], []⟩
/-- `p = (1/2, 1/2)` -/
private def p2 : Vec ℚ := ⟨2, [⟨0, 1/2⟩, ⟨1, 1/2⟩]⟩
/-- `t0 = (1, 0)` with an explicitly stored zero -/
private def t2 : Vec ℚ := ⟨2, [⟨0, 1⟩, ⟨1, 0⟩]⟩

private theorem canon2 : Canon 2 c2 p2 := by
  simp [Canon, WFM, WF, Sorted, c2, p2]
  norm_num

private theorem dist_t2 : Dist 2 t2.entries := by
  simp [Dist, WF, Sorted, t2]

example : WFM c2 ∧ Sorted t2.entries := ⟨canon2.wfm, dist_t2.1.1⟩

example : Dist 2 (stepEntries c2.transpose.rows (Vec.scale (1/3) p2).entries (1 - 1/3) t2.entries) :=
  step_mass 2 c2 p2 canon2 (1/3) (by norm_num) (by norm_num) _ dist_t2

/-- `a = 0` and `a = 1` are covered -/
example : Dist 2 (stepEntries c2.transpose.rows (Vec.scale 0 p2).entries (1 - 0) t2.entries) :=
  step_mass 2 c2 p2 canon2 0 le_rfl zero_le_one _ dist_t2
example : Dist 2 (stepEntries c2.transpose.rows (Vec.scale 1 p2).entries (1 - 1) t2.entries) :=
  step_mass 2 c2 p2 canon2 1 zero_le_one le_rfl _ dist_t2

example : Dist 2 ((stepEntries c2.transpose.rows (Vec.scale (1/3) p2).entries (1 - 1/3))^[7]
    t2.entries) :=
  iterate_distribution 2 c2 p2 canon2 (1/3) (by norm_num) (by norm_num) _ dist_t2 7

private def isOk (x : Except SErr (ComputeResult ℚ)) : Bool :=
  match x with
  | .ok _ => true
  | .error _ => false

/-- a run that converges (default options) … -/
example : ∃ r, compute 100 c2 p2 (1/3) (1/10) {} = .ok r ∧ r.t.dim = 2 ∧ Dist 2 r.t.entries := by
  have hok : isOk (compute 100 c2 p2 (1/3) (1/10) {}) = true := by decide +kernel
  cases h : compute 100 c2 p2 (1/3) (1/10) {} with
  | error err => rw [h] at hok; cases hok
  | ok r => exact ⟨r, rfl, compute_distribution 2 100 c2 p2 (1/3) (1/10) {} canon2 (by simp) r h⟩

/-- … and a run cut off by the iteration limit, from the initial vector `(1, 0)`, with a
    non-default schedule and a flat-tail requirement -/
example : ∃ r, compute 100 c2 p2 (1/3) (1/1000)
      { t0 := some t2, maxIterations := some 3, minIterations := some 2, checkFreq := some 2,
        flatTail := 1 } = .ok r ∧
    r.endedBy = .maxIterations ∧ r.t.dim = 2 ∧ Dist 2 r.t.entries := by
  have hok : (match compute 100 c2 p2 (1/3) (1/1000)
      { t0 := some t2, maxIterations := some 3, minIterations := some 2, checkFreq := some 2,
        flatTail := 1 } with
      | .ok r => decide (r.endedBy = .maxIterations)
      | .error _ => false) = true := by decide +kernel
  cases h : compute 100 c2 p2 (1/3) (1/1000)
      { t0 := some t2, maxIterations := some 3, minIterations := some 2, checkFreq := some 2,
        flatTail := 1 } with
  | error err => rw [h] at hok; cases hok
  | ok r =>
    rw [h] at hok
    refine ⟨r, rfl, by simpa using hok, compute_distribution 2 100 c2 p2 (1/3) (1/1000) _ canon2 ?_ r h⟩
    intro t0 ht0
    cases ht0
    exact dist_t2

end examples

end EtVerif.C02
