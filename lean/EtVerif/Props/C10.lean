/-
  C10 — Matrix construction, transpose and resize equal their dense counterparts.
  Property theorems only (helper lemmas live in Proofs/Merge.lean, Proofs/Matrix.lean).

  `denRows rows i j` is the dense value of a row table at `(i, j)` (`denE (rows.getD i []) j`);
  `Sorted es` = strictly increasing indices; `WF d es` = `Sorted es` and all indices `< d`;
  `WFM M` = `M.rows.length = M.major` and every row `WF M.minor` ("every stored column index is
  within the current dimension"); `HiddenClean M` = every row of `Entries[len:cap]` is nil.
-/
import EtVerif.Proofs.Matrix
import Mathlib.Algebra.Order.Field.Rat
import Mathlib.Tactic.NormNum

namespace EtVerif.C10
open EtVerif

variable {K : Type} [Field K] [LinearOrder K]

set_option linter.unusedSectionVars false

/-! ## g. NewCSRMatrix -/

/-- g. Dense content: with pairwise distinct coordinates (and the stored entries' rows in range,
    which Go needs not to panic) every listed cell has its listed value, every other cell is 0. -/
theorem newCSR_cells (rows cols : Nat) (es : List (Coo K)) (inc : Bool)
    (hd : (es.map (fun e => (e.row, e.col))).Nodup)
    (hr : ∀ e ∈ es, (e.val ≠ 0 ∨ inc = true) → e.row < rows) :
    (∀ e ∈ es, denRows (CSM.newCSR rows cols es inc).rows e.row e.col = e.val) ∧
    (∀ i j, (∀ e ∈ es, ¬ (e.row = i ∧ e.col = j)) →
      denRows (CSM.newCSR rows cols es inc).rows i j = 0) :=
  ⟨fun _ he => Mx.newCSR_den_of_mem hd hr he, fun _ _ h => Mx.newCSR_den_of_not_mem h⟩

/-- g. Stored cells: row `i` stores exactly (as a multiset) the listed cells of that row whose
    value is non-zero, or all of them when zeros are requested.  No distinctness needed. -/
theorem newCSR_stored (rows cols : Nat) (es : List (Coo K)) (inc : Bool) (i : Nat)
    (hi : i < rows) :
    ((CSM.newCSR rows cols es inc).rows.getD i []).Perm
      ((es.filter (fun e => decide (e.row = i) && (decide (e.val ≠ 0) || inc))).map
        (fun e => ⟨e.col, e.val⟩)) :=
  Mx.newCSR_row_perm rows cols es inc hi

/-- g. Zeros are kept only on request. -/
theorem newCSR_no_zero (rows cols : Nat) (es : List (Coo K)) (i : Nat) :
    ∀ x ∈ (CSM.newCSR rows cols es false).rows.getD i [], x.val ≠ 0 :=
  Mx.newCSR_no_zero rows cols es i

/-- g. Every row is sorted by column (weakly, for arbitrary input). -/
theorem newCSR_row_sorted (rows cols : Nat) (es : List (Coo K)) (inc : Bool) (i : Nat) :
    ((CSM.newCSR rows cols es inc).rows.getD i []).Pairwise (fun a b => a.idx ≤ b.idx) :=
  Mx.newCSR_row_sortedLe rows cols es inc i

/-- g. With distinct coordinates and stored columns in range the result is well-formed (rows
    strictly sorted, one row per row index, indices below `cols`), nothing hidden. -/
theorem newCSR_wf (rows cols : Nat) (es : List (Coo K)) (inc : Bool)
    (hd : (es.map (fun e => (e.row, e.col))).Nodup)
    (hc : ∀ e ∈ es, (e.val ≠ 0 ∨ inc = true) → e.col < cols) :
    WFM (CSM.newCSR rows cols es inc) ∧ HiddenClean (CSM.newCSR rows cols es inc) ∧
    (CSM.newCSR rows cols es inc).major = rows ∧ (CSM.newCSR rows cols es inc).minor = cols ∧
    (CSM.newCSR rows cols es inc).rows.length = rows :=
  ⟨Mx.newCSR_wfm hd hc, by intro r hr; simp at hr, rfl, rfl, Mx.newCSR_length rows cols es inc⟩

/-- g. The result does not depend on the order of the coordinate list. -/
theorem newCSR_perm (rows cols : Nat) (es es' : List (Coo K)) (inc : Bool)
    (hd : (es.map (fun e => (e.row, e.col))).Nodup) (hp : es.Perm es') :
    CSM.newCSR rows cols es inc = CSM.newCSR rows cols es' inc :=
  Mx.newCSR_perm hd hp

example :
    let es : List (Coo ℚ) := [⟨1, 2, 5⟩, ⟨0, 0, 1⟩, ⟨1, 0, 0⟩, ⟨2, 1, 7⟩]
    (es.map (fun e => (e.row, e.col))).Nodup ∧
    (∀ e ∈ es, (e.val ≠ 0 ∨ false = true) → e.row < 3) ∧
    (∀ e ∈ es, (e.val ≠ 0 ∨ false = true) → e.col < 3) := by
  simp

/-! ## h. Transpose -/

/-- h. Transpose is the dense transpose. -/
theorem transpose_den (M : CSM K) (hw : WFM M) (i j : Nat) :
    denRows M.transpose.rows j i = denRows M.rows i j :=
  Mx.transpose_den hw i j

/-- h. Dimensions are swapped. -/
theorem transpose_dims (M : CSM K) :
    M.transpose.major = M.minor ∧ M.transpose.minor = M.major := ⟨rfl, rfl⟩

/-- h. The transpose of a well-formed matrix is well-formed (one row per column, strictly sorted,
    indices below the old major dimension) and has nothing hidden. -/
theorem transpose_wf (M : CSM K) (hw : WFM M) :
    WFM M.transpose ∧ HiddenClean M.transpose ∧ M.transpose.rows.length = M.minor :=
  ⟨Mx.transpose_wfm hw, by intro r hr; simp at hr, Mx.transpose_length M⟩

/-- h. The stored cells of the transpose are exactly the mirrored stored cells (explicit zeros
    included). -/
theorem transpose_stored (M : CSM K) (j : Nat) (x : Entry K) :
    x ∈ M.transpose.rows.getD j [] ↔
      j < M.minor ∧ (⟨j, x.val⟩ : Entry K) ∈ M.rows.getD x.idx [] :=
  Mx.mem_transpose_row

/-- h. Transpose is an involution, as an equality of representations (the freshly built result
    has an empty hidden part). -/
theorem transpose_involutive (M : CSM K) (hw : WFM M) :
    M.transpose.transpose = { M with hidden := [] } := by
  have h : M.transpose.transpose = ⟨M.major, M.minor, M.transpose.transpose.rows, []⟩ := rfl
  rw [h, Mx.transpose_transpose_rows hw]

/-- h. Row view: `RowVector i` shares row `i` and denotes row `i`, well-formed. -/
theorem rowVec_view (M : CSM K) (hw : WFM M) (i : Nat) :
    (M.rowVec i).entries = M.rows.getD i [] ∧ (M.rowVec i).dim = M.minor ∧
    WF (M.rowVec i).dim (M.rowVec i).entries ∧
    ∀ j, denE (M.rowVec i).entries j = denRows M.rows i j :=
  ⟨rfl, rfl, Mx.WFM.row hw i, fun _ => rfl⟩

/-- h. Column view: row `j` of the transpose denotes column `j`. -/
theorem colVec_view (M : CSM K) (hw : WFM M) (j : Nat) :
    (M.transpose.rowVec j).dim = M.major ∧
    WF (M.transpose.rowVec j).dim (M.transpose.rowVec j).entries ∧
    ∀ i, denE (M.transpose.rowVec j).entries i = denRows M.rows i j :=
  ⟨rfl, Mx.WFM.row (Mx.transpose_wfm hw) j, fun i => Mx.transpose_den hw i j⟩

/-- `CSRMatrix.TransposeToCSC` / `CSCMatrix.TransposeToCSR` (matrix.go 398-406, 445-453): the
    row table is shared, the two dimension fields are swapped. -/
def sharedView (M : CSM K) : CSM K := ⟨M.minor, M.major, M.rows, M.hidden⟩

/-- h. The shared view read along the other axis (cell `(i, j)` of a compressed-column matrix is
    entry `i` of span `j`) has the cells of the built transpose, and shares the rows. -/
theorem views_agree (M : CSM K) (hw : WFM M) (i j : Nat) :
    (sharedView M).rows = M.rows ∧
    denRows (sharedView M).rows j i = denRows M.transpose.rows i j :=
  ⟨rfl, (Mx.transpose_den hw j i).symm⟩

/-- h. The dimension fields of the shared view are consistent with its row table only for
    square matrices: `MajorDim` becomes the old `MinorDim` although the table still has
    `MajorDim` spans. -/
theorem sharedView_wf_iff (M : CSM K) (hw : WFM M) :
    (sharedView M).rows.length = (sharedView M).major ↔ M.major = M.minor := by
  show M.rows.length = M.minor ↔ M.major = M.minor
  rw [hw.1]

example : WFM (⟨2, 3, [[⟨0, 1⟩, ⟨2, 3⟩], [⟨1, 2⟩]], []⟩ : CSM ℚ) := by
  simp [WFM, WF, Sorted]

/-- witness: the shared view of a well-formed 1×2 matrix is not well-formed -/
example : WFM (⟨1, 2, [[⟨1, 5⟩]], []⟩ : CSM ℚ) ∧
    ¬ WFM (sharedView (⟨1, 2, [[⟨1, 5⟩]], []⟩ : CSM ℚ)) := by
  simp [WFM, WF, Sorted, sharedView]

/-! ## i. Resize -/

/-- i. `HiddenClean` is preserved by every operation. -/
theorem hiddenClean_setMajorDim (M : CSM K) (hc : HiddenClean M) (d : Nat) :
    HiddenClean (M.setMajorDim d) := Mx.setMajorDim_hiddenClean hc d

theorem hiddenClean_setMinorDim (M : CSM K) (hc : HiddenClean M) (d : Nat) :
    HiddenClean (M.setMinorDim d) := Mx.setMinorDim_hiddenClean hc d

theorem hiddenClean_setDim (M : CSM K) (hc : HiddenClean M) (r c : Nat) :
    HiddenClean (M.setDim r c) := Mx.setDim_hiddenClean hc r c

theorem hiddenClean_merge (A B : CSM K) (hc : HiddenClean A) : HiddenClean (A.merge B).1 :=
  Mx.merge_hiddenClean hc B

theorem hiddenClean_transpose (M : CSM K) : HiddenClean M.transpose := by
  intro r hr; simp at hr

theorem hiddenClean_newCSR (rows cols : Nat) (es : List (Coo K)) (inc : Bool) :
    HiddenClean (CSM.newCSR rows cols es inc) := by
  intro r hr; simp at hr

/-- dense crop-and-zero-pad to `r × c` -/
def crop (r c : Nat) (f : Nat → Nat → K) : Nat → Nat → K :=
  fun i j => if i < r ∧ j < c then f i j else 0

/-- i. `SetDim` is dense crop-and-zero-pad. -/
theorem setDim_den (M : CSM K) (hw : WFM M) (hc : HiddenClean M) (r c i j : Nat) :
    denRows (M.setDim r c).rows i j = if i < r ∧ j < c then denRows M.rows i j else 0 :=
  Mx.setDim_den hw hc r c i j

/-- i. After `SetDim` the matrix is well-formed for the new dimensions: `r` rows, every stored
    column index below `c`. -/
theorem setDim_wf (M : CSM K) (hw : WFM M) (hc : HiddenClean M) (r c : Nat) :
    WFM (M.setDim r c) ∧ HiddenClean (M.setDim r c) ∧
    (M.setDim r c).major = r ∧ (M.setDim r c).minor = c ∧ (M.setDim r c).rows.length = r := by
  have h := Mx.setDim_wfm hw hc r c
  have hmaj : (M.setDim r c).major = r := by unfold CSM.setDim; simp
  have hmin : (M.setDim r c).minor = c := by unfold CSM.setDim; simp
  exact ⟨h, Mx.setDim_hiddenClean hc r c, hmaj, hmin, by rw [h.1, hmaj]⟩

/-- i. `SetMajorDim` crops / pads rows. -/
theorem setMajorDim_den (M : CSM K) (hc : HiddenClean M) (d i j : Nat) :
    denRows (M.setMajorDim d).rows i j = if i < d then denRows M.rows i j else 0 :=
  Mx.setMajorDim_den hc d i j

/-- i. `SetMinorDim` crops / pads columns. -/
theorem setMinorDim_den (M : CSM K) (hw : WFM M) (d i j : Nat) :
    denRows (M.setMinorDim d).rows i j = if j < d then denRows M.rows i j else 0 :=
  Mx.setMinorDim_den hw.2 d i j

/-- i. `Vector.SetDim` is dense crop-and-zero-pad and keeps the vector well-formed. -/
theorem vec_setDim (v : Vec K) (h : WF v.dim v.entries) (d : Nat) :
    (v.setDim d).dim = d ∧ WF d (v.setDim d).entries ∧
    ∀ i, denE (v.setDim d).entries i = if i < d then denE v.entries i else 0 := by
  unfold Vec.setDim
  split
  · exact ⟨rfl, Mg.wf_takeWhile h.1, Mg.den_takeWhile h.1⟩
  · refine ⟨rfl, Mg.wf_mono h (by omega), fun i => ?_⟩
    by_cases hi : i < d
    · rw [if_pos hi]
    · rw [if_neg hi]; exact Mg.denE_of_ge_dim h (by omega)

/-- i. Cells removed by a shrink do not reappear when the matrix grows again. -/
theorem shrink_then_grow (M : CSM K) (hw : WFM M) (hc : HiddenClean M) (r c r' c' i j : Nat) :
    denRows ((M.setDim r c).setDim r' c').rows i j =
      if (i < r ∧ j < c) ∧ (i < r' ∧ j < c') then denRows M.rows i j else 0 := by
  obtain ⟨h1, h2, _⟩ := setDim_wf M hw hc r c
  rw [setDim_den _ h1 h2, setDim_den _ hw hc]
  by_cases ha : i < r ∧ j < c <;> by_cases hb : i < r' ∧ j < c' <;> simp [ha, hb]

/-- resize / transpose / merge operations -/
inductive ROp (K : Type) where
  | setDim (r c : Nat)
  | setMajor (d : Nat)
  | setMinor (d : Nat)
  | transpose
  | merge (B : CSM K)

/-- the operation on the sparse representation -/
def runOp (M : CSM K) : ROp K → CSM K
  | .setDim r c => M.setDim r c
  | .setMajor d => M.setMajorDim d
  | .setMinor d => M.setMinorDim d
  | .transpose => M.transpose
  | .merge B => (M.merge B).1

/-- the operation on a dense matrix `(rows, cols, cells)` -/
def runDense (s : Nat × Nat × (Nat → Nat → K)) : ROp K → Nat × Nat × (Nat → Nat → K)
  | .setDim r c => (r, c, crop r c s.2.2)
  | .setMajor d => (d, s.2.1, crop d s.2.1 s.2.2)
  | .setMinor d => (s.1, d, crop s.1 d s.2.2)
  | .transpose => (s.2.1, s.1, fun i j => s.2.2 j i)
  | .merge B => (max s.1 B.major, max s.2.1 B.minor,
      fun i j => if ∃ e ∈ B.rows.getD i [], e.idx = j then denRows B.rows i j else s.2.2 i j)

/-- side condition of an operation: a merged update must be well-formed -/
def ROp.ok : ROp K → Prop
  | .merge B => WFM B
  | _ => True

/-- the dense matrix a sparse matrix denotes -/
def dense (M : CSM K) : Nat × Nat × (Nat → Nat → K) := (M.major, M.minor, denRows M.rows)

/-- i. One operation: invariants are kept and the sparse result denotes the dense result. -/
theorem resize_step (M : CSM K) (hw : WFM M) (hc : HiddenClean M) (op : ROp K) (hop : op.ok) :
    WFM (runOp M op) ∧ HiddenClean (runOp M op) ∧ dense (runOp M op) = runDense (dense M) op := by
  cases op with
  | setDim r c =>
    obtain ⟨h1, h2, h3, h4, _⟩ := setDim_wf M hw hc r c
    refine ⟨h1, h2, ?_⟩
    show ((M.setDim r c).major, (M.setDim r c).minor, denRows (M.setDim r c).rows) = _
    rw [h3, h4]
    have : denRows (M.setDim r c).rows = crop r c (denRows M.rows) := by
      funext i j; exact setDim_den M hw hc r c i j
    rw [this]; rfl
  | setMajor d =>
    refine ⟨Mx.setMajorDim_wfm hw hc d, Mx.setMajorDim_hiddenClean hc d, ?_⟩
    show ((M.setMajorDim d).major, (M.setMajorDim d).minor, denRows (M.setMajorDim d).rows) = _
    rw [Mx.setMajorDim_major, Mx.setMajorDim_minor]
    have : denRows (M.setMajorDim d).rows = crop d M.minor (denRows M.rows) := by
      funext i j
      rw [Mx.setMajorDim_den hc]
      unfold crop
      by_cases hi : i < d <;> by_cases hj : j < M.minor <;> simp [hi, hj]
      exact Mx.denRows_of_ge_minor hw i (by omega)
    rw [this]; rfl
  | setMinor d =>
    refine ⟨Mx.setMinorDim_wfm hw d, Mx.setMinorDim_hiddenClean hc d, ?_⟩
    show ((M.setMinorDim d).major, (M.setMinorDim d).minor, denRows (M.setMinorDim d).rows) = _
    rw [Mx.setMinorDim_major, Mx.setMinorDim_minor]
    have : denRows (M.setMinorDim d).rows = crop M.major d (denRows M.rows) := by
      funext i j
      rw [Mx.setMinorDim_den hw.2]
      unfold crop
      by_cases hi : i < M.major <;> by_cases hj : j < d <;> simp [hi, hj]
      exact Mx.denRows_of_ge_major hw (by omega) j
    rw [this]; rfl
  | transpose =>
    refine ⟨Mx.transpose_wfm hw, hiddenClean_transpose M, ?_⟩
    show (M.transpose.major, M.transpose.minor, denRows M.transpose.rows) = _
    have : denRows M.transpose.rows = fun i j => denRows M.rows j i := by
      funext i j; exact Mx.transpose_den hw j i
    rw [this]; rfl
  | merge B =>
    have hB : WFM B := hop
    refine ⟨Mx.merge_wfm hw hc hB, Mx.merge_hiddenClean hc B, ?_⟩
    show ((M.merge B).1.major, (M.merge B).1.minor, denRows (M.merge B).1.rows) = _
    rw [Mx.merge_major, Mx.merge_minor]
    have : denRows (M.merge B).1.rows = fun i j =>
        if ∃ e ∈ B.rows.getD i [], e.idx = j then denRows B.rows i j else denRows M.rows i j := by
      funext i j; exact Mx.merge_den hw hc hB i j
    rw [this]; rfl

/-- i. Every history of resizes, transposes and merges, started from a well-formed matrix with
    a clean hidden part: the result is well-formed (every stored column index is below the
    current minor dimension), its hidden part is clean, and its dimensions and cells are those of
    the dense interpretation — in particular cells removed by a shrink never reappear. -/
theorem resize_history (ops : List (ROp K)) (M : CSM K) (hw : WFM M) (hc : HiddenClean M)
    (hops : ∀ op ∈ ops, op.ok) :
    WFM (ops.foldl runOp M) ∧ HiddenClean (ops.foldl runOp M) ∧
    dense (ops.foldl runOp M) = ops.foldl runDense (dense M) := by
  induction ops generalizing M with
  | nil => exact ⟨hw, hc, rfl⟩
  | cons op ops ih =>
    obtain ⟨h1, h2, h3⟩ := resize_step M hw hc op (hops op (by simp))
    have := ih (runOp M op) h1 h2 (fun op' hop' => hops op' (by simp [hop']))
    simp only [List.foldl_cons]
    rw [h3] at this
    exact this

example :
    let M : CSM ℚ := ⟨3, 3, [[⟨0, 1⟩], [⟨2, 5⟩], [⟨1, 7⟩]], []⟩
    let ops : List (ROp ℚ) := [.setDim 1 1, .setDim 3 3, .transpose,
      .merge ⟨2, 4, [[⟨3, 2⟩], []], []⟩, .setMinor 2, .setMajor 5]
    WFM M ∧ HiddenClean M ∧ ∀ op ∈ ops, op.ok := by
  simp [WFM, HiddenClean, WF, Sorted, ROp.ok]

end EtVerif.C10
