/-
  Tie theorem: a structural fact regenerated from /repo's source by tools/gofacts on every run
  (Gen/Facts.lean) must satisfy the predicate the model-level theorems are stated for.  The `decide`
  below FAILS (and the check reports it) as soon as the extracted shape stops satisfying it.
-/
import EtVerif.Gen.Facts

namespace EtVerif.Ties
open EtVerif

/-- C12: Mmap's step order, cleanup defers, per-row poll, re-pointing into a new table installed after the copy. -/
theorem source_mmap_safe : Facts.mmapShape.safe = true := by decide

end EtVerif.Ties
