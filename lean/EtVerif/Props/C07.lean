/-
  C07 — If the caller's context is cancelled at any moment, compute, matrix-vector multiply and
  transpose either complete with the same result as an undisturbed run or return the context's
  error with no result.  They never report success with an incomplete or different vector, and
  leave no goroutine running afterwards.

  Property theorems only.  The goroutine transition system of `MulVec` and the loop models of
  `Compute` / `Transpose` live in Proofs/MulVecConc.lean (see the reading guide in Props/C06.lean).
-/
import EtVerif.Proofs.MulVecConc
import EtVerif.Gen.Facts

namespace EtVerif.C07
open EtVerif EtVerif.MulVecConc EtVerif.CancelAtomic

variable {β : Type}

/-! ### 4. `MulVec` is cancellation safe -/

/-- For a `safe`, `deterministicCollect` shape: in EVERY reachable state — `ctx` may be cancelled
    at any moment, every `select` may or may not notice — the collector either has not returned
    (receiver untouched), or returned `ctx.Err()` (only if `ctx` really was cancelled; receiver
    untouched), or returned `nil` with the receiver holding exactly the sequential product. -/
theorem mulVec_cancel_safe (shape : MulVecShape) (dim w : Nat) (prod : Nat → β)
    (isZ : β → Bool) (sortFn : List (Nat × β) → List (Nat × β))
    (hsafe : shape.safe = true) (hdet : shape.deterministicCollect = true)
    (hs : IsSortFn sortFn) (hw : 1 ≤ w)
    (s : St β) (hr : Reach ⟨shape, dim, w, prod, isZ, sortFn⟩ s) :
    (s.result = none ∧ s.out = none) ∨
    (s.result = some (.error ()) ∧ s.out = none ∧ s.cancelled = true) ∨
    (s.result = some (.ok (((List.range dim).map (fun r => (r, prod r))).filter
        (fun x => !isZ x.2))) ∧
      s.out = some (((List.range dim).map (fun r => (r, prod r))).filter (fun x => !isZ x.2))) := by
  have g := good_of_reach (detHyp_of hdet dim w prod isZ hs hw) hr
  have hpub := publishes_of_det hdet
  have hre := (liveHyp_of_safe hsafe dim w prod isZ sortFn).2.2
  cases hres : s.result with
  | none => exact Or.inl ⟨rfl, g.rinv.out_none hpub (Or.inl hres)⟩
  | some r =>
    cases r with
    | error e =>
      cases e
      exact Or.inr (Or.inl ⟨rfl, g.rinv.out_none hpub (Or.inr hres), g.rinv.err_cancelled hres⟩)
    | ok l =>
      rcases g.rinv.ok_seq l hres with h | h
      · subst h
        exact Or.inr (Or.inr ⟨rfl, g.rinv.out_ok _ hres⟩)
      · have : shape.collectorRechecksCtx = false := h.1
        rw [hre] at this; exact absurd this (by simp)

/-- Sharper form, needing only determinism: a wrong success is possible ONLY when the collector
    does not re-check `ctx` after its loop and `ctx` was cancelled. -/
theorem mulVec_wrong_only_without_recheck (shape : MulVecShape) (dim w : Nat) (prod : Nat → β)
    (isZ : β → Bool) (sortFn : List (Nat × β) → List (Nat × β))
    (hdet : shape.deterministicCollect = true) (hs : IsSortFn sortFn) (hw : 1 ≤ w)
    (s : St β) (hr : Reach ⟨shape, dim, w, prod, isZ, sortFn⟩ s) (l : List (Nat × β))
    (hres : s.result = some (.ok l)) :
    l = ((List.range dim).map (fun r => (r, prod r))).filter (fun x => !isZ x.2) ∨
      (shape.collectorRechecksCtx = false ∧ s.cancelled = true) :=
  (good_of_reach (detHyp_of hdet dim w prod isZ hs hw) hr).rinv.ok_seq l hres

/-! ### 5. what the re-check protects -/

/-- For the shape that is safe except for `collectorRechecksCtx := false`, with one row whose
    product is non-zero and one worker: a reachable state in which `MulVec` reported success and
    stored the EMPTY vector, although the sequential product is `[(0, prod 0)]`.  Trace: cancel →
    producer exits on cancel → worker exits on cancel → closer closes → collector takes the
    closed branch. -/
theorem mulVec_cancel_unsafe_witness (prod : Nat → β) (isZ : β → Bool)
    (sortFn : List (Nat × β) → List (Nat × β)) (hs : IsSortFn sortFn)
    (hnz : isZ (prod 0) = false) :
    ∃ s, Reach ⟨noRecheckShape, 1, 1, prod, isZ, sortFn⟩ s ∧ s.cancelled = true ∧
      s.result = some (.ok []) ∧ s.out = some [] ∧
      ((List.range 1).map (fun r => (r, prod r))).filter (fun x => !isZ x.2) = [(0, prod 0)] := by
  obtain ⟨s, h1, h2, h3, h4⟩ := unsafe_trace ⟨noRecheckShape, 1, 1, prod, isZ, sortFn⟩ rfl rfl rfl
    Nat.zero_lt_one hs.nil
  exact ⟨s, h1, h2, h3, h4, by simp [List.range_succ, hnz]⟩

/-- The same defect for every shape without the re-check, every `dim ≥ 1` and every worker count. -/
theorem mulVec_cancel_unsafe_general (shape : MulVecShape) (dim w : Nat) (prod : Nat → β)
    (isZ : β → Bool) (sortFn : List (Nat × β) → List (Nat × β)) (hs : IsSortFn sortFn)
    (hp : shape.producerSelectsCtx = true) (hwk : shape.workerRecvSelectsCtx = true)
    (hre : shape.collectorRechecksCtx = false) (hd : 0 < dim) :
    ∃ s, Reach ⟨shape, dim, w, prod, isZ, sortFn⟩ s ∧ s.cancelled = true ∧
      s.result = some (.ok []) ∧ s.out = some [] :=
  unsafe_trace ⟨shape, dim, w, prod, isZ, sortFn⟩ hp hwk hre hd hs.nil

/-- Tie to the source (re-checked against the regenerated `Gen/Facts.lean`): the extracted
    `MulVec` shape is either `safe`, or it is exactly the defective pattern of the witness
    (all `ctx` cases present, but no re-check after the collector loop). -/
theorem source_mulVec_verdict :
    Facts.mulVecShape.safe = true ∨
      (Facts.mulVecShape.producerSelectsCtx = true ∧ Facts.mulVecShape.workerRecvSelectsCtx = true ∧
        Facts.mulVecShape.collectorRechecksCtx = false) := by decide

/-- Hence, for the source as extracted (its own worker count), one of the two holds: every
    reachable state is cancellation safe, or for every `dim ≥ 1` a wrong success is reachable. -/
theorem mulVec_source_safe_or_witness (dim : Nat) (prod : Nat → β) (isZ : β → Bool)
    (sortFn : List (Nat × β) → List (Nat × β)) (hs : IsSortFn sortFn) (hd : 0 < dim) :
    (∀ s, Reach ⟨Facts.mulVecShape, dim, Facts.mulVecShape.numWorkers, prod, isZ, sortFn⟩ s →
      (s.result = none ∧ s.out = none) ∨
      (s.result = some (.error ()) ∧ s.out = none ∧ s.cancelled = true) ∨
      (s.result = some (.ok (((List.range dim).map (fun r => (r, prod r))).filter
          (fun x => !isZ x.2))) ∧
        s.out = some (((List.range dim).map (fun r => (r, prod r))).filter
          (fun x => !isZ x.2)))) ∨
    (∃ s, Reach ⟨Facts.mulVecShape, dim, Facts.mulVecShape.numWorkers, prod, isZ, sortFn⟩ s ∧
      s.cancelled = true ∧ s.result = some (.ok []) ∧ s.out = some []) := by
  have hdet : Facts.mulVecShape.deterministicCollect = true := by decide
  rcases source_mulVec_verdict with h | ⟨h1, h2, h3⟩
  · left
    intro s hr
    exact mulVec_cancel_safe _ dim _ prod isZ sortFn h hdet hs (numWorkers_of_det hdet) s hr
  · right
    exact mulVec_cancel_unsafe_general _ dim _ prod isZ sortFn hs h1 h2 h3 hd

/-! ### 6. no goroutine is left running -/

/-- `AllDone`: producer, all `w` workers and the closer have returned. -/
theorem allDone_iff (c : Cfg β) (s : St β) :
    AllDone c s ↔ (s.prodDone = true ∧ s.exited = c.w ∧ s.entriesClosed = true) := Iff.rfl

/-- (a) every step of producer, a worker or the closer strictly decreases `workNC`, and no step
    of anybody (collector, environment) increases it. -/
theorem mulVec_no_leak_measure (shape : MulVecShape) (dim w : Nat) (prod : Nat → β)
    (isZ : β → Bool) (sortFn : List (Nat × β) → List (Nat × β)) (a : Actor) (s s' : St β)
    (hstep : Step ⟨shape, dim, w, prod, isZ, sortFn⟩ a s s') :
    (a ≠ Actor.env → a ≠ Actor.collector →
      workNC ⟨shape, dim, w, prod, isZ, sortFn⟩ s' < workNC ⟨shape, dim, w, prod, isZ, sortFn⟩ s) ∧
    workNC ⟨shape, dim, w, prod, isZ, sortFn⟩ s' ≤ workNC ⟨shape, dim, w, prod, isZ, sortFn⟩ s :=
  workNC_step hstep

/-- both channels never hold more than `dim` items (their capacity): a send never blocks -/
theorem mulVec_channel_bounds (shape : MulVecShape) (dim w : Nat) (prod : Nat → β)
    (isZ : β → Bool) (sortFn : List (Nat × β) → List (Nat × β)) (s : St β)
    (hr : Reach ⟨shape, dim, w, prod, isZ, sortFn⟩ s) :
    s.jobs.length ≤ dim ∧ s.entriesQ.length ≤ dim ∧
      s.jobs.length + s.held.length + s.entriesQ.length ≤ dim := by
  have hS := sinv_of_reach hr
  have h1 : s.jobs.length + s.held.length + s.entriesQ.length ≤ s.next := hS.flow
  have h2 : s.next ≤ dim := hS.next_le
  exact ⟨by omega, by omega, by omega⟩

/-- (b) in every reachable state — before or after the collector returned, cancelled or not —
    in which producer, workers and closer have not all returned, one of them can take a step. -/
theorem mulVec_no_leak (shape : MulVecShape) (dim w : Nat) (prod : Nat → β)
    (isZ : β → Bool) (sortFn : List (Nat × β) → List (Nat × β)) (hsafe : shape.safe = true)
    (s : St β) (hr : Reach ⟨shape, dim, w, prod, isZ, sortFn⟩ s)
    (hnd : ¬ AllDone ⟨shape, dim, w, prod, isZ, sortFn⟩ s) :
    ∃ a s', a ≠ Actor.env ∧ a ≠ Actor.collector ∧ Step ⟨shape, dim, w, prod, isZ, sortFn⟩ a s s' := by
  obtain ⟨L, hcw, _⟩ := liveHyp_of_safe hsafe dim w prod isZ sortFn
  obtain ⟨s', a, h1, h2, h3⟩ := no_leak_progress L hcw hr hnd
  exact ⟨a, s', h1, h2, h3⟩

/-- (a)+(b): from every reachable state the non-collector goroutines can, on their own, run
    until all of them have returned. -/
theorem mulVec_no_leak_eventually (shape : MulVecShape) (dim w : Nat) (prod : Nat → β)
    (isZ : β → Bool) (sortFn : List (Nat × β) → List (Nat × β)) (hsafe : shape.safe = true)
    (s : St β) (hr : Reach ⟨shape, dim, w, prod, isZ, sortFn⟩ s) :
    ∃ s', Relation.ReflTransGen (NCStep ⟨shape, dim, w, prod, isZ, sortFn⟩) s s' ∧
      AllDone ⟨shape, dim, w, prod, isZ, sortFn⟩ s' := by
  obtain ⟨L, hcw, _⟩ := liveHyp_of_safe hsafe dim w prod isZ sortFn
  exact no_leak_eventually L hcw _ s hr rfl

/-- A state in which no goroutine can move is fully terminated: the collector has returned and
    producer, workers and closer have all returned. -/
theorem mulVec_stuck_is_terminated (shape : MulVecShape) (dim w : Nat) (prod : Nat → β)
    (isZ : β → Bool) (sortFn : List (Nat × β) → List (Nat × β)) (hsafe : shape.safe = true)
    (s : St β) (hr : Reach ⟨shape, dim, w, prod, isZ, sortFn⟩ s)
    (hstuck : ∀ a s', Step ⟨shape, dim, w, prod, isZ, sortFn⟩ a s s' → a = Actor.env) :
    s.result ≠ none ∧ AllDone ⟨shape, dim, w, prod, isZ, sortFn⟩ s := by
  obtain ⟨L, hcw, _⟩ := liveHyp_of_safe hsafe dim w prod isZ sortFn
  constructor
  · intro hres
    obtain ⟨a, s', ha, hs⟩ := no_deadlock L hr hres
    exact ha (hstuck a s' hs)
  · by_contra hnd
    obtain ⟨s', a, h1, _, h3⟩ := no_leak_progress L hcw hr hnd
    exact h1 (hstuck a s' h3)

/-- no worker ever sends on (or waits at) a closed `entries`: the Go panic is unreachable -/
theorem mulVec_no_send_on_closed (shape : MulVecShape) (dim w : Nat) (prod : Nat → β)
    (isZ : β → Bool) (sortFn : List (Nat × β) → List (Nat × β))
    (hcw : shape.closerWaitsAllWorkers = true) (s : St β)
    (hr : Reach ⟨shape, dim, w, prod, isZ, sortFn⟩ s) (hcl : s.entriesClosed = true) :
    s.held = [] ∧ s.idle = 0 :=
  no_send_on_closed hcw (sinv_of_reach hr) hcl

/-! ### 7. caller-level atomicity of `Compute` and `Transpose` -/

/-- `Compute` under any cancellation oracle (`cancelled i` = what the poll at the head of iteration
    `i` sees, `mvFails i` = `MulVec` of iteration `i` returned `ctx.Err()`): the outcome is either
    an error with `nil` result, the caller's result slot and `t0` untouched, or exactly the
    outcome of the undisturbed run — which succeeds and leaves `t0` untouched. -/
theorem compute_cancel_atomic {σ : Type} (sh : ComputeShape) (hsafe : sh.safe = true)
    (body skip : σ → σ) (stop : Nat → σ → Bool) (cancelled mvFails : Nat → Bool) (t0 : σ)
    (maxIters iter : Nat) (t1 : σ) (slot : Option σ) :
    computeLoop sh body skip stop cancelled mvFails t0 maxIters iter t1 slot =
        ⟨true, none, slot, t0⟩ ∨
      (computeLoop sh body skip stop cancelled mvFails t0 maxIters iter t1 slot =
          computeUndisturbed sh body skip stop t0 maxIters iter t1 slot ∧
        ∃ t, computeUndisturbed sh body skip stop t0 maxIters iter t1 slot =
          ⟨false, some t, some t, t0⟩) := by
  rcases computeLoop_atomic sh hsafe body skip stop cancelled mvFails t0 maxIters iter t1 slot
    with h | h
  · exact Or.inl h
  · exact Or.inr ⟨h, computeUndisturbed_ok sh hsafe body skip stop t0 maxIters iter t1 slot⟩

/-- If `ctx` is never cancelled (`MulVec` fails only when it is, by `mulVec_cancel_safe`), the
    run IS the undisturbed run. -/
theorem compute_uncancelled {σ : Type} (sh : ComputeShape) (body skip : σ → σ)
    (stop : Nat → σ → Bool) (cancelled mvFails : Nat → Bool)
    (hmv : ∀ i, mvFails i = true → cancelled (i + 1) = true)
    (hnever : ∀ i, cancelled i = false) (t0 : σ) (maxIters iter : Nat) (t1 : σ)
    (slot : Option σ) :
    computeLoop sh body skip stop cancelled mvFails t0 maxIters iter t1 slot =
      computeUndisturbed sh body skip stop t0 maxIters iter t1 slot := by
  have h1 : cancelled = fun _ => false := funext hnever
  have h2 : mvFails = fun _ => false := by
    funext i
    cases h : mvFails i
    · rfl
    · have := hmv i h; rw [hnever] at this; exact absurd this (by simp)
  subst h1 h2
  rfl

/-- With a monotone oracle: once cancelled at the head of an iteration that is still inside the
    loop (`maxIters` not exhausted), that poll returns the error — cancellation is noticed at the
    very next loop head. -/
theorem compute_cancel_noticed {σ : Type} (sh : ComputeShape) (hsafe : sh.safe = true)
    (body skip : σ → σ) (stop : Nat → σ → Bool) (cancelled mvFails : Nat → Bool)
    (hmono : ∀ i j, i ≤ j → cancelled i = true → cancelled j = true) (t0 : σ)
    (fuel iter k : Nat) (hk : k ≤ iter) (hc : cancelled k = true) (t1 : σ) (slot : Option σ) :
    computeLoop sh body skip stop cancelled mvFails t0 (fuel + 1) iter t1 slot =
      ⟨true, none, slot, t0⟩ := by
  have hci := hmono k iter hk hc
  simp only [ComputeShape.safe, Bool.and_eq_true] at hsafe
  obtain ⟨⟨⟨⟨h1, h2⟩, _⟩, h4⟩, _⟩ := hsafe
  simp [computeLoop, h1, hci, cErr, h2, h4]

/-- `Transpose` under any cancellation oracle (`cancelled i` = the poll before row `i`): error with
    `nil` result and the receiver untouched, or the full transpose (the model's `CSM.transpose`)
    with the receiver untouched. -/
theorem transpose_cancel_atomic {α : Type} (sh : TransposeShape) (hsafe : sh.safe = true)
    (cancelled : Nat → Bool) (m : CSM α) :
    transposeC sh cancelled m = ⟨true, none, m⟩ ∨
      transposeC sh cancelled m = ⟨false, some m.transpose, m⟩ := by
  rcases transposeLoop_atomic sh hsafe cancelled m m.rows.zipIdx (List.replicate m.minor [])
    with h | h
  · exact Or.inl h
  · exact Or.inr h

/-- THE TIE for MulVec: the shape extracted from /repo's current source is cancellation safe
    (this `decide` fails — and the check reports it — as soon as the extracted shape is not). -/
theorem source_mulVec_safe : Facts.mulVecShape.safe = true := by decide

/-- `mulVec_cancel_safe` instantiated at the source shape and its own worker count. -/
theorem mulVec_cancel_safe_source (dim : Nat) (prod : Nat → β) (isZ : β → Bool)
    (sortFn : List (Nat × β) → List (Nat × β)) (hs : IsSortFn sortFn)
    (s : St β) (hr : Reach ⟨Facts.mulVecShape, dim, Facts.mulVecShape.numWorkers, prod, isZ, sortFn⟩ s) :
    (s.result = none ∧ s.out = none) ∨
    (s.result = some (.error ()) ∧ s.out = none ∧ s.cancelled = true) ∨
    (s.result = some (.ok (((List.range dim).map (fun r => (r, prod r))).filter
        (fun x => !isZ x.2))) ∧
      s.out = some (((List.range dim).map (fun r => (r, prod r))).filter (fun x => !isZ x.2))) :=
  mulVec_cancel_safe Facts.mulVecShape dim Facts.mulVecShape.numWorkers prod isZ sortFn
    source_mulVec_safe (by decide) hs (by decide) s hr

/-- Tie to the source: the extracted `Compute` and `Transpose` shapes are safe. -/
theorem source_compute_transpose_safe :
    Facts.computeShape.safe = true ∧ Facts.transposeShape.safe = true := by decide

/-! ### non-vacuity -/

example : safeShape.safe = true ∧ safeShape.deterministicCollect = true ∧
    IsSortFn (isortFst (β := Nat)) := ⟨by decide, by decide, isortFst_isSortFn⟩

/-- the shape of the witness fails `safe` only through the missing re-check -/
example : noRecheckShape.safe = false ∧
    ({ noRecheckShape with collectorRechecksCtx := true } : MulVecShape).safe = true := by decide

/-- a reachable state of the safe shape in which `ctx.Err()` was returned with the receiver
    untouched (cancel, then the collector takes its `ctx.Done()` case) -/
example : ∃ s, Reach exCfg s ∧ s.result = some (.error ()) ∧ s.out = none :=
  ⟨_, ((Reach.start exCfg).step (Step.cancel _)).step (Step.collCancel _ rfl rfl rfl), rfl, rfl⟩

/-- a reachable completed run of the safe shape (third alternative of `mulVec_cancel_safe`) -/
example : ∃ s, Reach exCfg s ∧ s.result = some (.ok [(0, 1), (1, 2)]) ∧ AllDone exCfg s := by
  obtain ⟨s, h1, _, _, h4, _, h6⟩ := exCfg_run
  exact ⟨s, h1, h4, h6⟩

/-- a leaked-looking state that is NOT stuck: the collector returned `ctx.Err()` at once, nobody
    else has moved; `mulVec_no_leak` applies to it (its hypothesis `¬ AllDone` holds) -/
example : ∃ s, Reach exCfg s ∧ s.result = some (.error ()) ∧ ¬ AllDone exCfg s :=
  ⟨_, ((Reach.start exCfg).step (Step.cancel _)).step (Step.collCancel _ rfl rfl rfl), rfl,
    fun h => by simp [AllDone, init] at h⟩

example : (⟨true, true, true, true, true⟩ : ComputeShape).safe = true ∧
    (⟨true, true, true⟩ : TransposeShape).safe = true := by decide

/-- `Compute` model on ℕ (`body = +1`, stop at iteration 3): undisturbed → 3 in the slot;
    cancelled from iteration 2 on → error, slot and input untouched. -/
example :
    computeUndisturbed ⟨true, true, true, true, true⟩ (· + 1) id (fun i _ => i == 3) (0 : Nat) 10 0 0 none
      = ⟨false, some 3, some 3, 0⟩ ∧
    computeLoop ⟨true, true, true, true, true⟩ (· + 1) id (fun i _ => i == 3) (fun i => decide (2 ≤ i))
      (fun _ => false) (0 : Nat) 10 0 0 none = ⟨true, none, none, 0⟩ := ⟨rfl, rfl⟩

end EtVerif.C07
