/-
  TrC04 — the CURRENT SOURCE of `basic.Canonicalize` and `basic.CanonicalizeTrustVector` (translated by
  tools/go2lean on every run) computes exactly the model's `canonicalize` / `canonicalizeTrustVector`,
  about which Props/C04 proves the canonicalisation laws and scale invariance.
  `CanonicalizeLocalTrust` mutates the matrix through the slice shared by `RowVector`: the translator carries
  that sharing as a write-through view (DESIGN.md 14.2), so it is translated and refined as well.
  Property theorems only.
-/
import EtVerif.Proofs.TrCanonTV
import EtVerif.Proofs.TrLocalTrust

namespace EtVerif.TrC04
open EtVerif EtVerif.GoSem EtVerif.Gen EtVerif.Tr Scalar

variable {α : Type} [Scalar α]

set_option linter.unusedSectionVars false

/-- eigentrust.go `Canonicalize` = `canonicalize`: every value divided in place by the compensated sum, or
    ErrZeroSum with the entries untouched when that sum compares equal to zero. -/
theorem canonicalize_refines (es : List (Entry α)) :
    (Gen.Canonicalize (toGs es)).map (fun r => (r.1.entries, r.2)) =
      (match canonicalize es with
       | .ok es' => .ok (toGs es', none)
       | .error _ => .ok (toGs es, some ⟨"ErrZeroSum"⟩)) :=
  Canonicalize_refines es

/-- trustvector.go `CanonicalizeTrustVector` = `canonicalizeTrustVector`: normalised, or the uniform vector
    `1/dim` over all `dim` peers when the sum is zero. -/
theorem canonicalizeTrustVector_refines (v : Vec α) :
    (Gen.CanonicalizeTrustVector (toGV v)).map (fun r => r.1.v) = .ok (toGV (canonicalizeTrustVector v)) :=
  CanonicalizeTrustVector_refines v

/-- localtrust.go `CanonicalizeLocalTrust` = `canonicalizeLocalTrust`: every row divided by its compensated sum
    in place; a zero-sum row replaced by the pre-trust's entries when a pre-trust is given, left untouched
    otherwise — for EVERY row position; a non-square matrix or a pre-trust of another dimension refused
    untouched.  Fuel ≥ the number of rows. -/
theorem canonicalizeLocalTrust_refines (fuel : Nat) (m : CSM α) (p : Option (Vec α))
    (hrows : m.rows.length = m.major) (hf : m.major ≤ fuel) :
    (Gen.CanonicalizeLocalTrust fuel (toGM m) (p.map toGV)).map (fun r => (r.1.localTrust, r.2)) =
      (match canonicalizeLocalTrust m p with
       | .ok m' => .ok (toGM m', none)
       | .error _ => .ok (toGM m, some ⟨"ErrDimensionMismatch"⟩)) :=
  CanonicalizeLocalTrust_refines fuel m p hrows hf

end EtVerif.TrC04
