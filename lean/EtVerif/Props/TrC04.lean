/-
  TrC04 — the CURRENT SOURCE of `basic.Canonicalize` and `basic.CanonicalizeTrustVector` (translated by
  tools/go2lean on every run) computes exactly the model's `canonicalize` / `canonicalizeTrustVector`,
  about which Props/C04 proves the canonicalisation laws and scale invariance.
  (`CanonicalizeLocalTrust` mutates the matrix through the slice shared by `RowVector`, which the
  translation's value semantics does not carry: it stays hand-modelled, tied by correspondence.)
  Property theorems only.
-/
import EtVerif.Proofs.TrCanonTV

namespace EtVerif.TrC04
open EtVerif EtVerif.GoSem EtVerif.Gen EtVerif.Tr Scalar

variable {α : Type} [Scalar α]

set_option linter.unusedSectionVars false

/-- eigentrust.go `Canonicalize` = `canonicalize`: every value divided in place by the compensated sum, or
    ErrZeroSum with the entries untouched when that sum compares equal to zero. -/
theorem canonicalize_refines (es : List (Entry α)) :
    (Gen.Canonicalize (toGs es)).map (fun r => (r.1.entries, r.2)) =
      (match canonicalize es with
       | .ok es' => .ok (toGs es', none)
       | .error _ => .ok (toGs es, some ⟨"ErrZeroSum"⟩)) :=
  Canonicalize_refines es

/-- trustvector.go `CanonicalizeTrustVector` = `canonicalizeTrustVector`: normalised, or the uniform vector
    `1/dim` over all `dim` peers when the sum is zero. -/
theorem canonicalizeTrustVector_refines (v : Vec α) :
    (Gen.CanonicalizeTrustVector (toGV v)).map (fun r => r.1.v) = .ok (toGV (canonicalizeTrustVector v)) :=
  CanonicalizeTrustVector_refines v

end EtVerif.TrC04
