/-
  C13 (concurrent clause) — concurrent `/local-trust/{id}` requests behave as some sequential
  order of the same requests.  Property theorems only; the step-level model (`Step`, `Reach`, the
  history variables `trace` / `hist`) and the simulation argument live in Proofs/StoreConc.lean.

  Vocabulary (Proofs/StoreConc.lean, namespace `EtVerif.StoreConc`):
  * `Req M`, `Resp M`, `specStep ov` / `runSpec ov` — the sequential specification of C13
    (`Oapi.handleStore`, `C13.specStep`) with matrices abstracted to a type `M` and merge to an
    overlay `ov target update`; `specStep_eq_C13` below ties it back to `C13.specStep`;
  * `Step prog ov s s'` — one atomic action (a `sync.Map` primitive or a `LockAndRun` section) of
    one goroutine; `Reach prog ov s` — `s` is reachable from the empty store by any interleaving of
    any number of goroutines, goroutine `r` serving request `prog r`;
  * `s.trace` — the atomic actions in execution order; `s.hist` — the completed requests with the
    step indices of their first (`inv`) and last (`res`) atomic action, request and response;
  * `mapOf tr`, `contOf ov tr o` — map and object contents *defined from a trace*: `contOf` is the
    fold of `ov` over the merge bodies applied to `o` by locked sections, in section order, starting
    from the body `o` was allocated with; `Sound ov tr` — every action of `tr` observed exactly the
    map / content defined by the actions before it; `Rec.Backed` — the response of a record is the
    one determined by the final atomic action of its request (201 iff `Swap` / `LoadOrStore` found
    no previous binding, …).

  RESULT.  The full statement `linearizable` (no side condition) is TRUE for this code and proved:
  the orphaned-object scenarios (a merge section or a get's read on an object that a concurrent
  Swap / LoadAndDelete already removed from the map) are linearized immediately *before* the
  request that removed the object — they were in flight at that instant, and a put / delete of an
  id does not see the content it replaces.  `linearizable_no_merge` is the special case asked for
  separately; no `_partial` variant is needed.

  FINDING (outside the abstraction "bodies are already loaded"): a PUT whose body is a *stored
  reference* reads the source (Load + locked copy) and later Swaps — two separate instants — and is
  NOT linearizable w.r.t. `C13.specStep`: `stored_ref_put_not_linearizable`.
-/
import EtVerif.Proofs.StoreConc
import EtVerif.Props.C13

namespace EtVerif.C13b
open EtVerif EtVerif.StoreConc

set_option linter.unusedSectionVars false

variable {M : Type} {prog : Nat → Req M} {ov : M → M → M} {s : St M}

/-! ## 1. the step-level invariant -/

/-- In every reachable state the map and every object's content are the ones defined by the trace
    of atomic actions (content = fold of `ov` over the merge bodies applied in locked sections, in
    section order, from the allocation body), every action observed exactly that state, and every
    recorded response is the one determined by the request's final atomic action. -/
theorem conc_invariant (h : Reach prog ov s) :
    s.map = mapOf s.trace ∧ s.cont = contOf ov s.trace ∧ Sound ov s.trace ∧
    (∀ rc ∈ s.hist, rc.Backed prog s.trace) :=
  let t := TraceInv.reach h
  ⟨t.map_eq, t.cont_eq, t.sound, t.backed⟩

/-- `conc_invariant` spelled out for one object. -/
theorem content_is_fold (h : Reach prog ov s) (o : Nat) (c : M) (hc : s.cont o = some c) :
    ∃ b0, allocBody s.trace o = some b0 ∧ c = (mergeBodies s.trace o).foldl ov b0 := by
  rw [(TraceInv.reach h).cont_eq] at hc
  simpa [contOf, eq_comm] using hc

/-! ## 2. linearizability -/

/-- A history is linearizable: some permutation of the completed requests (a) respects real-time
    order — a request that responded before another was invoked stands before it — and (b) replayed
    through the sequential specification from the empty store produces exactly the recorded
    responses. -/
def Linearizable (ov : M → M → M) (hist : List (Rec M)) : Prop :=
  ∃ l : List (Rec M), l.Perm hist ∧
    (∀ (i j : Nat) (hi : i < l.length) (hj : j < l.length), l[i].res < l[j].inv → i < j) ∧
    runSpec ov (fun _ => none) (l.map (·.req)) = l.map (·.resp)

/-- Every concurrent history of put / put?merge / get / head / delete requests, under every
    interleaving of the atomic actions of any number of goroutines, is linearizable.  (`s.hist`
    holds the completed requests; a pending request has had no effect yet — every handler's only
    write is its final atomic action — so pending requests are simply left out.) -/
theorem linearizable (h : Reach prog ov s) : Linearizable ov s.hist := by
  obtain ⟨l, hp, hrt, hrun⟩ := linearization_exists h
  refine ⟨l, hp, rt_index hrt ?_, hrun⟩
  intro rc hrc
  exact ((TraceInv.reach h).backed rc (hp.mem_iff.mp hrc)).2.1

/-- The merge-free case (put, get, head, delete only). -/
theorem linearizable_no_merge (h : Reach prog ov s) (_hnm : ∀ r id b, prog r ≠ .merge id b) :
    Linearizable ov s.hist :=
  linearizable h

/-! ## the abstract specification is `C13.specStep` -/

section tie
variable {K : Type} [Field K] [LinearOrder K]

/-- the matrices of the C13 specification: size and dense content -/
abbrev Mx (K : Type) := Nat × (Nat → Nat → K)

/-- merge in the C13 specification: larger size, update wins where it has an entry -/
def ovK (a b : Mx K) : Mx K := (max a.1 b.1, C13.overlayNZ a.2 b.2)

def toSpecReq : Req (Mx K) → C13.SpecReq K
  | .put id b => .put id false (.matrix b.1 b.2)
  | .merge id b => .put id true (.matrix b.1 b.2)
  | .get id => .get id
  | .head id => .head id
  | .delete id => .delete id

def toSpecResp : Resp (Mx K) → C13.SpecResp K
  | .created => .created
  | .updated => .updated
  | .noContent => .noContent
  | .notFound => .notFound
  | .matrix m => .matrix m.1 m.2

theorem kvSet_eq_update (kv : C13.KV K) (id : String) (x : Option (Mx K)) :
    C13.kvSet kv id x = Function.update kv id x := by
  funext id'
  simp [C13.kvSet, Function.update_apply]

/-- `StoreConc.specStep` at `M := Mx K`, `ov := ovK` is `C13.specStep` on valid inline bodies. -/
theorem specStep_eq_C13 (kv : C13.KV K) (q : Req (Mx K)) :
    C13.specStep kv (toSpecReq q) =
      ((specStep ovK kv q).1, toSpecResp (specStep ovK kv q).2) := by
  cases q with
  | put id b =>
    cases h : kv id <;>
      simp [toSpecReq, C13.specStep, C13.resolve, specStep, h, kvSet_eq_update, toSpecResp]
  | merge id b =>
    cases h : kv id <;>
      simp [toSpecReq, C13.specStep, C13.resolve, specStep, h, kvSet_eq_update, toSpecResp, ovK]
  | get id =>
    cases h : kv id <;> simp [toSpecReq, C13.specStep, specStep, h, toSpecResp]
  | head id =>
    cases h : kv id <;> simp [toSpecReq, C13.specStep, specStep, h, toSpecResp]
  | delete id =>
    cases h : kv id <;>
      simp [toSpecReq, C13.specStep, specStep, h, kvSet_eq_update, toSpecResp]

theorem runSpec_eq_C13 (kv : C13.KV K) (qs : List (Req (Mx K))) :
    C13.runSpec kv (qs.map toSpecReq) = (runSpec ovK kv qs).map toSpecResp := by
  induction qs generalizing kv with
  | nil => rfl
  | cons q qs ih =>
    simp only [List.map_cons, C13.runSpec, runSpec, specStep_eq_C13, ih]

/-- `linearizable`, replayed through the specification of Props/C13.lean itself. -/
theorem linearizable_C13 {prog : Nat → Req (Mx K)} {s : St (Mx K)} (h : Reach prog ovK s) :
    ∃ l : List (Rec (Mx K)), l.Perm s.hist ∧
      (∀ (i j : Nat) (hi : i < l.length) (hj : j < l.length), l[i].res < l[j].inv → i < j) ∧
      C13.runSpec (fun _ => none) (l.map fun rc => toSpecReq rc.req) =
        l.map fun rc => toSpecResp rc.resp := by
  obtain ⟨l, hp, hrt, hrun⟩ := linearizable h
  refine ⟨l, hp, hrt, ?_⟩
  have := runSpec_eq_C13 (K := K) (fun _ => none) (l.map (·.req))
  rw [List.map_map] at this
  rw [show (fun rc : Rec (Mx K) => toSpecReq rc.req) = toSpecReq ∘ (·.req) from rfl, this, hrun,
    List.map_map]
  rfl

end tie

/-! ## FINDING: a PUT whose body is a stored reference is not atomic

  `UpdateLocalTrust` with body `{scheme: "stored", id: src}` first runs `loadStoredTrustMatrix`
  (`Load(src)` + a locked copy: exactly the two atomic actions of a GET of `src`) and later
  `Set` / `Merge` (`Swap` / `LoadOrStore` with the copy: exactly the action of a PUT of the copied
  matrix).  In the model this goroutine is therefore a `get src` followed by a `put id copy`.
  Sequentially (`C13.specStep`, `SpecBody.stored`) such a PUT is one instant.

  Witness (3 clients): `PUT a X` completes; client P sends `PUT a {stored a}`, its handler loads
  and copies `a` (steps 1-2); `DELETE a` → 204 (step 3); P's handler Swaps (step 4): nothing was
  loaded, so P is answered **201 Created**.  Sequentially `PUT a {stored a}` can only answer 400
  (`a` absent) or 200 (`a` present, hence replaced) — never 201; so no order of the three requests,
  real-time respecting or not, explains the responses.  (With two ids the same non-atomicity gives
  the more familiar anomaly: `PUT a X`; P: `PUT b {stored a}` copies X; `DELETE a` → 204; then
  `GET b` → 404; P Swaps → 201: P must follow the GET, hence the DELETE, where `a` is absent.) -/

section witness

/-- the matrix used in the witness -/
private def wX : Mx ℚ := (1, fun _ _ => 0)

/-- goroutines: 0 = `PUT a X`; 1 then 3 = the two halves of P's `PUT a {stored a}`;
    2 = `DELETE a` -/
private def wProg : Nat → Req (Mx ℚ)
  | 0 => .put "a" wX
  | 1 => .get "a"
  | 2 => .delete "a"
  | _ => .put "a" wX

/-- what the three clients observe: invocation step, response step, request, response -/
private def wClient : List (Nat × Nat × C13.SpecReq ℚ × C13.SpecResp ℚ) :=
  [ (0, 0, .put "a" false (.matrix wX.1 wX.2), .created),
    (1, 4, .put "a" false (.stored "a"), .created),
    (3, 3, .delete "a", .noContent) ]

theorem runSpec_mem {K : Type} [Field K] [LinearOrder K]
    (l : List (Nat × Nat × C13.SpecReq K × C13.SpecResp K)) (kv : C13.KV K)
    (h : C13.runSpec kv (l.map (·.2.2.1)) = l.map (·.2.2.2))
    (x : Nat × Nat × C13.SpecReq K × C13.SpecResp K) (hx : x ∈ l) :
    ∃ kv', (C13.specStep kv' x.2.2.1).2 = x.2.2.2 := by
  induction l generalizing kv with
  | nil => cases hx
  | cons y l ih =>
    simp only [List.map_cons, C13.runSpec, List.cons.injEq] at h
    rcases List.mem_cons.mp hx with rfl | hx
    · exact ⟨kv, h.1⟩
    · exact ih _ h.2 hx

/-- sequentially, copying an id onto itself never creates it -/
theorem self_copy_never_created {K : Type} [Field K] [LinearOrder K] (kv : C13.KV K) (id : String) :
    (C13.specStep kv (.put id false (.stored id))).2 ≠ .created := by
  cases h : kv id with
  | none => simp [C13.specStep, C13.resolve, h]
  | some m => simp [C13.specStep, C13.resolve, h]

/-- There is an execution of the handlers (5 atomic actions, 3 clients) whose client-visible
    history has NO sequential explanation at all w.r.t. `C13.specStep`: the handler of
    `PUT a {stored a}` (goroutines 1 and 3) copies `a`, `a` is deleted, and the handler's Swap
    then reports 201. -/
theorem stored_ref_put_not_linearizable :
    ∃ s : St (Mx ℚ), Reach wProg ovK s ∧
      s.hist = [⟨0, .put "a" wX, 0, 0, .created⟩, ⟨1, .get "a", 1, 2, .matrix wX⟩,
                ⟨2, .delete "a", 3, 3, .noContent⟩, ⟨3, .put "a" wX, 4, 4, .created⟩] ∧
      ¬ ∃ l : List (Nat × Nat × C13.SpecReq ℚ × C13.SpecResp ℚ), l.Perm wClient ∧
          C13.runSpec (fun _ => none) (l.map (·.2.2.1)) = l.map (·.2.2.2) := by
  refine ⟨_, reach_of_runFn (sched := [0, 1, 1, 2, 3]) rfl, rfl, ?_⟩
  rintro ⟨l, hp, hrun⟩
  have hx : (1, 4, C13.SpecReq.put "a" false (.stored "a"), C13.SpecResp.created) ∈ l :=
    hp.mem_iff.mpr (by simp [wClient])
  obtain ⟨kv', hkv'⟩ := runSpec_mem l _ hrun _ hx
  exact self_copy_never_created kv' "a" hkv'

end witness

/-! ## non-vacuity: concrete concurrent executions with overlapping requests -/

section examples

private def app (a b : List Nat) : List Nat := a ++ b

/-- goroutines: 0 = `PUT a [1]`, 1 = `PUT?merge a [2]`, 2 = `GET a`, 3 = `PUT a [9]` -/
private def exProg : Nat → Req (List Nat)
  | 0 => .put "a" [1]
  | 1 => .merge "a" [2]
  | 2 => .get "a"
  | 3 => .put "a" [9]
  | _ => .head "z"

/-- schedule: put 0 | merge 1 loads o0 | get 2 loads o0 | put 3 swaps (o0 orphaned) |
    merge 1 merges into the orphan | get 2 reads the orphan: `[1, 2]`, a value the map never held -/
private def exSched : List Nat := [0, 1, 2, 3, 1, 2]

private def exHist : List (Rec (List Nat)) :=
  [⟨0, .put "a" [1], 0, 0, .created⟩, ⟨3, .put "a" [9], 3, 3, .updated⟩,
   ⟨1, .merge "a" [2], 1, 4, .updated⟩, ⟨2, .get "a", 2, 5, .matrix [1, 2]⟩]

private theorem ex_run : ∃ s, runFn exProg app init exSched = some s ∧ s.hist = exHist ∧
    s.cont 0 = some [1, 2] ∧ s.map "a" = some 2 := by
  refine ⟨_, rfl, ?_, ?_, ?_⟩ <;> decide

example : ∃ s, Reach exProg app s ∧ s.hist = exHist ∧ Linearizable app s.hist := by
  obtain ⟨s, h1, h2, _⟩ := ex_run
  exact ⟨s, reach_of_runFn h1, h2, linearizable (reach_of_runFn h1)⟩

/-- its linearization, explicitly: put 0, merge 1, get 2 (both *before* the put that orphaned the
    object they worked on), put 3 -/
private def exLin : List (Rec (List Nat)) :=
  [⟨0, .put "a" [1], 0, 0, .created⟩, ⟨1, .merge "a" [2], 1, 4, .updated⟩,
   ⟨2, .get "a", 2, 5, .matrix [1, 2]⟩, ⟨3, .put "a" [9], 3, 3, .updated⟩]

example : exLin.Perm exHist ∧ exLin.Pairwise (fun a b => ¬ b.res < a.inv) ∧
    runSpec app (fun _ => none) (exLin.map (·.req)) = exLin.map (·.resp) := by
  refine ⟨by decide, by decide, by decide⟩

example : ∃ s, Reach exProg app s ∧ s.cont 0 = some [1, 2] ∧
    (∃ b0, allocBody s.trace 0 = some b0 ∧ [1, 2] = (mergeBodies s.trace 0).foldl app b0) := by
  obtain ⟨s, h1, _, h3, _⟩ := ex_run
  exact ⟨s, reach_of_runFn h1, h3, content_is_fold (reach_of_runFn h1) 0 _ h3⟩

example : ∃ s, Reach exProg app s ∧ s.hist = exHist ∧ Sound app s.trace := by
  obtain ⟨s, h1, h2, _⟩ := ex_run
  exact ⟨s, reach_of_runFn h1, h2, (conc_invariant (reach_of_runFn h1)).2.2.1⟩

/-- merge-free: 0 = `PUT a [1]`, 1 = `GET a`, 2 = `DELETE a`, 3 = `HEAD a`;
    the get loads, the delete and the head complete, the get reads the orphan -/
private def exProg2 : Nat → Req (List Nat)
  | 0 => .put "a" [1]
  | 1 => .get "a"
  | 2 => .delete "a"
  | _ => .head "a"

private theorem exProg2_no_merge : ∀ r id b, exProg2 r ≠ .merge id b := by
  intro r id b h
  unfold exProg2 at h
  split at h <;> cases h

example : ∃ s, Reach exProg2 app s ∧
    s.hist = [⟨0, .put "a" [1], 0, 0, .created⟩, ⟨2, .delete "a", 2, 2, .noContent⟩,
              ⟨3, .head "a", 3, 3, .notFound⟩, ⟨1, .get "a", 1, 4, .matrix [1]⟩] ∧
    Linearizable app s.hist := by
  have h : ∃ s, runFn exProg2 app init [0, 1, 2, 3, 1] = some s ∧ s.hist =
      [⟨0, .put "a" [1], 0, 0, .created⟩, ⟨2, .delete "a", 2, 2, .noContent⟩,
       ⟨3, .head "a", 3, 3, .notFound⟩, ⟨1, .get "a", 1, 4, .matrix [1]⟩] := by
    refine ⟨_, rfl, ?_⟩; decide
  obtain ⟨s, h1, h2⟩ := h
  exact ⟨s, reach_of_runFn h1, h2, linearizable_no_merge (reach_of_runFn h1) exProg2_no_merge⟩

/-- the scenario "put a X; [get a loads o]; delete a; [merge a Z creates a new object]; get reads
    o": 0 = `PUT a [1]`, 1 = `GET a`, 2 = `DELETE a`, 3 = `PUT?merge a [7]` (answered 201);
    linearization: put, get, delete, merge -/
private def exProg3 : Nat → Req (List Nat)
  | 0 => .put "a" [1]
  | 1 => .get "a"
  | 2 => .delete "a"
  | _ => .merge "a" [7]

example : ∃ s, Reach exProg3 app s ∧
    s.hist = [⟨0, .put "a" [1], 0, 0, .created⟩, ⟨2, .delete "a", 2, 2, .noContent⟩,
              ⟨3, .merge "a" [7], 3, 3, .created⟩, ⟨1, .get "a", 1, 4, .matrix [1]⟩] ∧
    Linearizable app s.hist ∧
    runSpec app (fun _ => none) [.put "a" [1], .get "a", .delete "a", .merge "a" [7]] =
      [.created, .matrix [1], .noContent, .created] := by
  have h : ∃ s, runFn exProg3 app init [0, 1, 2, 3, 1] = some s ∧ s.hist =
      [⟨0, .put "a" [1], 0, 0, .created⟩, ⟨2, .delete "a", 2, 2, .noContent⟩,
       ⟨3, .merge "a" [7], 3, 3, .created⟩, ⟨1, .get "a", 1, 4, .matrix [1]⟩] := by
    refine ⟨_, rfl, ?_⟩; decide
  obtain ⟨s, h1, h2⟩ := h
  exact ⟨s, reach_of_runFn h1, h2, linearizable (reach_of_runFn h1), by decide⟩

/-- the C13 specification instance: a put and an overlapping merge at `K := ℚ` -/
private def exProgQ : Nat → Req (Mx ℚ)
  | 0 => .put "a" (2, fun i j => if i = 0 ∧ j = 1 then 1 else 0)
  | 1 => .merge "a" (3, fun i j => if i = 2 ∧ j = 0 then 5 else 0)
  | _ => .get "a"

example : ∃ s, Reach exProgQ ovK s ∧ s.hist.length = 3 := by
  have h : ∃ s, runFn exProgQ ovK init [0, 1, 2, 1, 2] = some s ∧ s.hist.length = 3 :=
    ⟨_, rfl, rfl⟩
  obtain ⟨s, h1, h2⟩ := h
  exact ⟨s, reach_of_runFn h1, h2⟩

example (s : St (Mx ℚ)) (h : Reach exProgQ ovK s) := linearizable_C13 h

example := runSpec_eq_C13 (K := ℚ) (fun _ => none)
  [.put "a" (2, fun _ _ => 1), .merge "a" (3, fun _ _ => 0), .get "a", .delete "a", .head "a"]

end examples

end EtVerif.C13b
