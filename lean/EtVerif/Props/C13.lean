/-
  C13 (sequential part) — `/local-trust/{id}` behaves like a sequential map from id to matrix.
  Property theorems only (helper lemmas live in Proofs/OapiLemmas.lean).

  Vocabulary (Proofs/OapiLemmas.lean, namespace `EtVerif.OapiL`):
  * `MatInv M`   — invariant of a stored matrix: `WFM M`, square, `HiddenClean M`, no stored zero;
  * `StoreInv s` — every stored matrix satisfies `MatInv`;
  * `denIM m i j` — dense value of an inline body (the listed value, `0` if not listed);
  * `denCells es i j` — dense reading of a list of `(i, j, v)` cells (sum of the listed values);
  * `renderI M`  — the inline body `GET` answers with, re-read as a request body.
-/
import EtVerif.Proofs.OapiLemmas
import Mathlib.Algebra.Order.Field.Rat
import Mathlib.Tactic.NormNum

namespace EtVerif.C13
open EtVerif EtVerif.Oapi EtVerif.OapiL

variable {K : Type} [Field K] [LinearOrder K]

set_option linter.unusedSectionVars false

/-! ## the specification: a sequential map from id to (size, dense content) -/

/-- abstract state: id ↦ size and dense content -/
abbrev KV (K : Type) := String → Option (Nat × (Nat → Nat → K))

/-- map update -/
def kvSet (kv : KV K) (id : String) (x : Option (Nat × (Nat → Nat → K))) : KV K :=
  fun id' => if id' = id then x else kv id'

/-- the state a store denotes (first binding wins, as `Store.get?`) -/
def absStore (s : Store K) : KV K :=
  fun id => (s.get? id).map fun M => (M.major, denRows M.rows)

/-- a decoded request body: a valid matrix (size, dense content), a reference to a stored id, or
    a body the loader refuses -/
inductive SpecBody (K : Type) where
  | matrix (size : Nat) (den : Nat → Nat → K)
  | stored (id : String)
  | invalid

inductive SpecReq (K : Type) where
  | put (id : String) (merge : Bool) (body : SpecBody K)
  | get (id : String)
  | head (id : String)
  | delete (id : String)

inductive SpecResp (K : Type) where
  | created | updated | noContent | notFound | badRequest
  | matrix (size : Nat) (den : Nat → Nat → K)

/-- overlay of an update on existing content: the update wins wherever it has an entry (inline
    bodies cannot carry zero entries, so "has an entry" = "is non-zero") -/
def overlayNZ (f0 f : Nat → Nat → K) : Nat → Nat → K :=
  fun i j => if f i j = 0 then f0 i j else f i j

/-- the matrix a body denotes in a state (`none` = refused) -/
def resolve (kv : KV K) : SpecBody K → Option (Nat × (Nat → Nat → K))
  | .matrix n f => some (n, f)
  | .stored id => kv id
  | .invalid => none

/-- the documented behaviour of one request -/
def specStep (kv : KV K) : SpecReq K → KV K × SpecResp K
  | .put id merge body =>
    match resolve kv body with
    | none => (kv, .badRequest)
    | some (n, f) =>
      match kv id with
      | none => (kvSet kv id (some (n, f)), .created)
      | some (n0, f0) =>
        if merge then (kvSet kv id (some (max n0 n, overlayNZ f0 f)), .updated)
        else (kvSet kv id (some (n, f)), .updated)
  | .get id =>
    match kv id with
    | none => (kv, .notFound)
    | some (n, f) => (kv, .matrix n f)
  | .head id => (kv, if (kv id).isSome then .noContent else .notFound)
  | .delete id => if (kv id).isSome then (kvSet kv id none, .noContent) else (kv, .notFound)

open Classical in
/-- decoding of a request body, independent of the store: an inline body is valid when
    `size ≥ 1` and all indices are in `[0, size)` -/
noncomputable def absBody : MatrixRef K → SpecBody K
  | .inline m => if 0 < m.size ∧ InRangeM m then .matrix m.size.toNat (denIM m) else .invalid
  | .stored id => .stored id
  | .objectStorage _ => .invalid
  | .unknown _ => .invalid

noncomputable def absReq : StoreReq K → SpecReq K
  | .put id merge body => .put id merge (absBody body)
  | .get id => .get id
  | .head id => .head id
  | .delete id => .delete id

def absResp : StoreResp K → SpecResp K
  | .created => .created
  | .updated => .updated
  | .noContent => .noContent
  | .notFound => .notFound
  | .badRequest => .badRequest
  | .matrix n es => .matrix n (denCells es)

/-- side condition on requests: an inline PUT body lists every `(i, j)` at most once (with
    repeated coordinates the order produced by Go's unstable sort is unspecified) -/
def ReqOK : StoreReq K → Prop
  | .put _ _ (.inline m) => (m.entries.map fun e => (e.1, e.2.1)).Nodup
  | _ => True

/-! ## 6. one step refines the specification -/

theorem absStore_set (s : Store K) (id : String) (M : CSM K) :
    absStore (Store.set s id M) = kvSet (absStore s) id (some (M.major, denRows M.rows)) := by
  funext id'
  unfold absStore kvSet
  rw [get?_set]
  split <;> rfl

theorem absStore_erase (s : Store K) (id : String) :
    absStore (Store.erase s id) = kvSet (absStore s) id none := by
  funext id'
  unfold absStore kvSet
  rw [get?_erase]
  split <;> rfl

/-- the loader and the decoding agree: a refused body is `invalid`; an accepted one satisfies the
    stored-matrix invariant and denotes the decoded (size, dense content) -/
theorem resolve_load {s : Store K} (hs : StoreInv s) (body : MatrixRef K)
    (hok : ∀ m, body = .inline m → (m.entries.map fun e => (e.1, e.2.1)).Nodup) :
    (loadMatrix s body = none ∧ resolve (absStore s) (absBody body) = none) ∨
    (∃ c, loadMatrix s body = some c ∧ MatInv c ∧
      resolve (absStore s) (absBody body) = some (c.major, denRows c.rows)) := by
  classical
  cases body with
  | inline m =>
    by_cases hv : 0 < m.size ∧ InRangeM m
    · right
      have hl : loadInlineMatrix m = some (CSM.newCSR m.size.toNat m.size.toNat (cooOfI m) false) := by
        rw [loadInlineMatrix_eq, if_pos hv]
      obtain ⟨h1, h2, h3⟩ := MatInv.load hl (hok m rfl)
      refine ⟨_, hl, h1, ?_⟩
      simp only [absBody, if_pos hv, resolve]
      rw [h2]
      congr 2
      funext i j
      exact (h3 i j).symm
    · left
      refine ⟨by show loadInlineMatrix m = none; rw [loadInlineMatrix_eq, if_neg hv], ?_⟩
      simp only [absBody, if_neg hv, resolve]
  | stored id' =>
    cases hg : s.get? id' with
    | none =>
      left
      exact ⟨hg, by simp only [absBody, resolve, absStore, hg, Option.map_none]⟩
    | some M =>
      right
      exact ⟨M, hg, hs.get hg, by simp only [absBody, resolve, absStore, hg, Option.map_some]⟩
  | objectStorage u => left; exact ⟨rfl, rfl⟩
  | unknown u => left; exact ⟨rfl, rfl⟩

/-- dense content and size after a merge -/
theorem merge_abs {old c : CSM K} (ho : MatInv old) (hc : MatInv c) :
    ((old.merge c).1.major, denRows (old.merge c).1.rows) =
      (max old.major c.major, overlayNZ (denRows old.rows) (denRows c.rows)) := by
  rw [Mx.merge_major]
  congr 1
  funext i j
  rw [Mx.merge_den ho.wfm ho.clean hc.wfm]
  unfold overlayNZ
  by_cases h : denRows c.rows i j = 0
  · rw [if_neg (fun hex => (stored_iff_ne_zero hc.wfm hc.noZero i j).mp hex h), if_pos h]
  · rw [if_pos ((stored_iff_ne_zero hc.wfm hc.noZero i j).mpr h), if_neg h]

/-- Every request on a store satisfying the invariant: the invariant is kept, the new state
    denotes the specification's new state, and the response is the specification's response. -/
theorem store_step_refines (s : Store K) (hs : StoreInv s) (req : StoreReq K) (hok : ReqOK req) :
    StoreInv (handleStore s req).1 ∧
    absStore (handleStore s req).1 = (specStep (absStore s) (absReq req)).1 ∧
    absResp (handleStore s req).2 = (specStep (absStore s) (absReq req)).2 := by
  cases req with
  | put id merge body =>
    have hok' : ∀ m, body = .inline m → (m.entries.map fun e => (e.1, e.2.1)).Nodup := by
      intro m hm; subst hm; exact hok
    rcases resolve_load hs body hok' with ⟨hl, hr⟩ | ⟨c, hl, hc, hr⟩
    · simp only [handleStore, hl, absReq, specStep, hr]
      exact ⟨hs, (by trivial), (by trivial)⟩
    · cases hg : s.get? id with
      | none =>
        have hkv : absStore s id = none := by simp only [absStore, hg, Option.map_none]
        simp only [handleStore, hl, hg, absReq, specStep, hr, hkv]
        exact ⟨hs.set id hc, absStore_set s id c, (by trivial)⟩
      | some old =>
        have ho := hs.get hg
        have hkv : absStore s id = some (old.major, denRows old.rows) := by
          simp only [absStore, hg, Option.map_some]
        cases merge with
        | true =>
          simp only [handleStore, hl, hg, absReq, specStep, hr, hkv, if_true]
          refine ⟨hs.set id (ho.merge hc), ?_, (by trivial)⟩
          rw [absStore_set, merge_abs ho hc]
        | false =>
          simp only [handleStore, hl, hg, absReq, specStep, hr, hkv, Bool.false_eq_true, if_false]
          exact ⟨hs.set id hc, absStore_set s id c, (by trivial)⟩
  | get id =>
    cases hg : s.get? id with
    | none =>
      have hkv : absStore s id = none := by simp only [absStore, hg, Option.map_none]
      simp only [handleStore, hg, absReq, specStep, hkv]
      exact ⟨hs, (by trivial), (by trivial)⟩
    | some M =>
      have hkv : absStore s id = some (M.major, denRows M.rows) := by
        simp only [absStore, hg, Option.map_some]
      simp only [handleStore, hg, absReq, specStep, hkv]
      refine ⟨hs, (by trivial), ?_⟩
      simp only [absResp]
      congr 1
      funext i j
      exact denCells_entriesOf M i j
  | head id =>
    have hkv : (absStore s id).isSome = (s.get? id).isSome := by
      simp only [absStore, Option.isSome_map]
    simp only [handleStore, absReq, specStep, hkv]
    refine ⟨hs, (by trivial), ?_⟩
    cases (s.get? id).isSome <;> rfl
  | delete id =>
    have hkv : (absStore s id).isSome = (s.get? id).isSome := by
      simp only [absStore, Option.isSome_map]
    simp only [handleStore, absReq, specStep, hkv]
    cases hg : (s.get? id).isSome with
    | true =>
      simp only [if_true]
      exact ⟨hs.erase id, absStore_erase s id, (by trivial)⟩
    | false =>
      simp only [Bool.false_eq_true, if_false]
      exact ⟨hs, (by trivial), (by trivial)⟩

/-! ## 7. any request sequence from the empty store -/

/-- responses of the handlers to a request sequence -/
def runStore (s : Store K) : List (StoreReq K) → List (StoreResp K)
  | [] => []
  | q :: qs => (handleStore s q).2 :: runStore (handleStore s q).1 qs

/-- responses of the specification to a request sequence -/
def runSpec (kv : KV K) : List (SpecReq K) → List (SpecResp K)
  | [] => []
  | q :: qs => (specStep kv q).2 :: runSpec (specStep kv q).1 qs

theorem store_refines_from (s : Store K) (hs : StoreInv s) (reqs : List (StoreReq K))
    (hok : ∀ q ∈ reqs, ReqOK q) :
    (runStore s reqs).map absResp = runSpec (absStore s) (reqs.map absReq) := by
  induction reqs generalizing s with
  | nil => rfl
  | cons q qs ih =>
    obtain ⟨h1, h2, h3⟩ := store_step_refines s hs q (hok q (by simp))
    simp only [runStore, List.map_cons, runSpec]
    rw [h3, ih _ h1 (fun q' hq' => hok q' (by simp [hq'])), h2]

/-- From the empty store, the responses to any sequence of PUT / PUT?merge / GET / HEAD / DELETE
    requests are those of the sequential map. -/
theorem store_refines_map (reqs : List (StoreReq K)) (hok : ∀ q ∈ reqs, ReqOK q) :
    (runStore ([] : Store K) reqs).map absResp = runSpec (fun _ => none) (reqs.map absReq) :=
  store_refines_from [] (fun p hp => by cases hp) reqs hok

/-! ## reachable stores satisfy the invariant -/

/-- the store after a request sequence -/
def runState (s : Store K) : List (StoreReq K) → Store K
  | [] => s
  | q :: qs => runState (handleStore s q).1 qs

/-- the specification's state after a request sequence -/
def runSpecState (kv : KV K) : List (SpecReq K) → KV K
  | [] => kv
  | q :: qs => runSpecState (specStep kv q).1 qs

/-- Every store reachable from the empty one satisfies the invariant (in particular every stored
    matrix satisfies `MatInv`), and denotes the specification's state. -/
theorem reachable_inv (reqs : List (StoreReq K)) (hok : ∀ q ∈ reqs, ReqOK q) :
    StoreInv (runState ([] : Store K) reqs) ∧
    absStore (runState ([] : Store K) reqs) = runSpecState (fun _ => none) (reqs.map absReq) := by
  have key : ∀ (s : Store K), StoreInv s → ∀ reqs : List (StoreReq K), (∀ q ∈ reqs, ReqOK q) →
      StoreInv (runState s reqs) ∧
      absStore (runState s reqs) = runSpecState (absStore s) (reqs.map absReq) := by
    intro s hs reqs
    induction reqs generalizing s with
    | nil => intro _; exact ⟨hs, rfl⟩
    | cons q qs ih =>
      intro hok
      obtain ⟨h1, h2, _⟩ := store_step_refines s hs q (hok q (by simp))
      have := ih _ h1 (fun q' hq' => hok q' (by simp [hq']))
      simp only [runState, List.map_cons, runSpecState]
      rw [← h2]
      exact this
  exact key [] (fun p hp => by cases hp) reqs hok

/-! ## 8. invalid bodies -/

/-- A body the loader refuses is answered 400 and leaves the store unchanged. -/
theorem invalid_body_unchanged (s : Store K) (id : String) (merge : Bool) (body : MatrixRef K)
    (h : loadMatrix s body = none) :
    handleStore s (.put id merge body) = (s, .badRequest) := by
  simp only [handleStore, h]

/-! ## 9. PUT: status, replace, merge -/

/-- An accepted PUT answers 201 exactly when it created the id, 200 otherwise. -/
theorem put_status (s : Store K) (id : String) (merge : Bool) (body : MatrixRef K) (c : CSM K)
    (h : loadMatrix s body = some c) :
    (s.get? id = none → (handleStore s (.put id merge body)).2 = .created) ∧
    (∀ old, s.get? id = some old → (handleStore s (.put id merge body)).2 = .updated) := by
  constructor
  · intro hg
    simp only [handleStore, h, hg]
  · intro old hg
    cases merge <;> simp [handleStore, h, hg]

/-- A PUT without `merge` (or on a new id) stores exactly the loaded matrix under `id` and
    leaves every other id alone. -/
theorem put_replace (s : Store K) (id : String) (merge : Bool) (body : MatrixRef K) (c : CSM K)
    (h : loadMatrix s body = some c) (hm : merge = false ∨ s.get? id = none) :
    (handleStore s (.put id merge body)).1.get? id = some c ∧
    ∀ id', id' ≠ id → (handleStore s (.put id merge body)).1.get? id' = s.get? id' := by
  have hst : (handleStore s (.put id merge body)).1 = Store.set s id c := by
    rcases hm with rfl | hg
    · cases hg : s.get? id <;> simp [handleStore, h, hg]
    · simp only [handleStore, h, hg]
  rw [hst]
  refine ⟨by rw [get?_set, if_pos rfl], fun id' hne => by rw [get?_set, if_neg hne]⟩

/-- A PUT with `merge=true` on an existing id overlays the stored cells of the new matrix onto
    the existing one (`C11.overlay`) and enlarges it to the larger of the two sizes; every other
    id is left alone. -/
theorem merge_overlay (s : Store K) (id : String) (body : MatrixRef K) (old c : CSM K)
    (hg : s.get? id = some old) (hl : loadMatrix s body = some c)
    (ho : WFM old) (hoc : HiddenClean old) (hc : WFM c) :
    ∃ M', (handleStore s (.put id true body)).1.get? id = some M' ∧
      M'.major = max old.major c.major ∧ M'.minor = max old.minor c.minor ∧
      WFM M' ∧ HiddenClean M' ∧
      denRows M'.rows = C11.overlay (denRows old.rows) c ∧
      ∀ id', id' ≠ id → (handleStore s (.put id true body)).1.get? id' = s.get? id' := by
  have hst : (handleStore s (.put id true body)).1 = Store.set s id (old.merge c).1 := by
    simp only [handleStore, hl, hg, if_true]
  rw [hst]
  obtain ⟨h1, h2, _, h4, h5, h6⟩ := C11.merge_matrix old c ho hoc hc
  refine ⟨(old.merge c).1, by rw [get?_set, if_pos rfl], h1, h2, h4, h5, ?_,
    fun id' hne => by rw [get?_set, if_neg hne]⟩
  funext i j
  exact h6 i j

/-! ## GET returns exactly the current size and entries -/

/-- `GET` on an absent id is 404; on a present id it returns the size and an entry list that
    contains `(i, j, v)` exactly when `v ≠ 0` is the value of cell `(i, j)`, lists every cell at
    most once, stays within the size, and whose dense reading is the stored content. -/
theorem get_exact (s : Store K) (hs : StoreInv s) (id : String) :
    (s.get? id = none → handleStore s (.get id) = (s, .notFound)) ∧
    (∀ M, s.get? id = some M →
      handleStore s (.get id) = (s, .matrix M.major (entriesOf M)) ∧
      (∀ i j v, (i, j, v) ∈ entriesOf M ↔ (v ≠ 0 ∧ denRows M.rows i j = v)) ∧
      ((entriesOf M).map fun e => (e.1, e.2.1)).Nodup ∧
      (∀ i j v, (i, j, v) ∈ entriesOf M → i < M.major ∧ j < M.major) ∧
      (∀ i j, denCells (entriesOf M) i j = denRows M.rows i j)) := by
  constructor
  · intro hg; simp only [handleStore, hg]
  · intro M hg
    have hM := hs.get hg
    refine ⟨by simp only [handleStore, hg], ?_, entriesOf_nodup hM.wfm, ?_, denCells_entriesOf M⟩
    · intro i j v
      rw [mem_entriesOf]
      constructor
      · intro hm
        refine ⟨hM.noZero i _ hm, ?_⟩
        exact Mg.denE_of_mem (Mx.WFM.row hM.wfm i).1 hm
      · rintro ⟨hv, hd⟩
        have hne : denRows M.rows i j ≠ 0 := by rw [hd]; exact hv
        obtain ⟨e, he, rfl⟩ := (stored_iff_ne_zero hM.wfm hM.noZero i j).mpr hne
        have := Mg.denE_of_mem (Mx.WFM.row hM.wfm i).1 he
        unfold denRows at hd
        rw [this] at hd
        rw [← hd]
        exact he
    · intro i j v hm
      have hin := inRange_renderI hM.wfm hM.square ((i : Int), (j : Int), v)
        (List.mem_map.mpr ⟨(i, j, v), hm, rfl⟩)
      simp only [renderI] at hin
      omega

/-- GET followed by PUT of the returned body (under any id, replacing) stores a matrix with the
    same rows, dimensions and dense content; the request satisfies `ReqOK`. -/
theorem get_put_roundtrip (s : Store K) (hs : StoreInv s) (id id2 : String) (M : CSM K)
    (hg : s.get? id = some M) :
    ReqOK (.put id2 false (.inline (renderI M)) : StoreReq K) ∧
    ∃ M', (handleStore s (.put id2 false (.inline (renderI M)))).1.get? id2 = some M' ∧
      M'.rows = M.rows ∧ M'.major = M.major ∧ M'.minor = M.minor ∧
      absStore (handleStore s (.put id2 false (.inline (renderI M)))).1 id2 = absStore s id := by
  have hM := hs.get hg
  have hl : loadMatrix s (.inline (renderI M)) = some ⟨M.major, M.major, M.rows, []⟩ :=
    load_renderI hM.wfm hM.square hM.noZero hM.pos
  obtain ⟨h1, _⟩ := put_replace s id2 false _ _ hl (Or.inl rfl)
  refine ⟨(valid_renderI hM.wfm hM.square hM.pos).2.2, _, h1, rfl, rfl, hM.square, ?_⟩
  simp only [absStore, h1, hg, Option.map_some]

/-! ## non-vacuity at `K := ℚ` -/

section examples

-- `ℚ` carries two `Scalar` instances (`ratScalar` for the driver, `fieldScalar` for proofs);
-- the examples use the proof instance.
attribute [local instance 10000] fieldScalar

/-- create, merge-with-enlargement, read, probe, refused body, delete, read again -/
private def exReqs : List (StoreReq ℚ) :=
  [ .put "a" false (.inline ⟨2, [(0, 1, 1), (1, 0, 2)]⟩),
    .put "a" true (.inline ⟨3, [(2, 0, 5), (0, 1, 7)]⟩),
    .get "a", .head "b", .put "b" false (.inline ⟨0, []⟩), .put "b" true (.stored "a"),
    .put "c" false (.stored "nope"), .delete "a", .get "a" ]

private theorem exReqs_ok : ∀ q ∈ exReqs, ReqOK q := by
  intro q hq
  simp only [exReqs, List.mem_cons, List.not_mem_nil, or_false] at hq
  rcases hq with rfl | rfl | rfl | rfl | rfl | rfl | rfl | rfl | rfl <;>
    first | trivial | (simp only [ReqOK]; decide)

example := store_refines_map exReqs exReqs_ok
example := reachable_inv exReqs exReqs_ok

private def code : StoreResp ℚ → Nat × List (Nat × Nat × ℚ)
  | .created => (201, [])
  | .updated => (200, [])
  | .noContent => (204, [])
  | .notFound => (404, [])
  | .badRequest => (400, [])
  | .matrix n es => (1000 + n, es)

example : (runStore [] exReqs).map code =
    [(201, []), (200, []), (1003, [(0, 1, 7), (1, 0, 2), (2, 0, 5)]), (404, []), (400, []),
     (201, []), (400, []), (204, []), (404, [])] := by
  decide +kernel

/-- the store after the first two requests: id "a" holds the merged 3×3 matrix -/
private def exS : Store ℚ := runState [] (exReqs.take 2)
private theorem exS_inv : StoreInv exS :=
  (reachable_inv _ (fun q hq => exReqs_ok q (List.mem_of_mem_take hq))).1
private def exA : CSM ℚ := ⟨3, 3, [[⟨1, 7⟩], [⟨0, 2⟩], [⟨0, 5⟩]], []⟩
deriving instance DecidableEq for Entry
deriving instance DecidableEq for CSM
private theorem exS_a : exS.get? "a" = some exA := by decide +kernel

example := (get_exact exS exS_inv "a").2 exA exS_a
example := (get_exact exS exS_inv "zzz").1 (by decide +kernel)
example := get_put_roundtrip exS exS_inv "a" "copy" exA exS_a
example : handleStore exS (.put "a" true (.inline ⟨2, [(5, 0, 1)]⟩)) = (exS, .badRequest) :=
  invalid_body_unchanged exS "a" true _ (by decide +kernel)
example := put_status exS "a" true (.stored "a") exA exS_a
example := put_replace exS "a" false (.stored "a") exA exS_a (Or.inl rfl)
example := merge_overlay exS "a" (.stored "a") exA exA exS_a exS_a
  (exS_inv.get exS_a).wfm (exS_inv.get exS_a).clean (exS_inv.get exS_a).wfm
example := store_step_refines exS exS_inv (.put "a" true (.inline ⟨4, [(3, 3, 1)]⟩))
  (by simp only [ReqOK]; decide)

end examples

end EtVerif.C13
