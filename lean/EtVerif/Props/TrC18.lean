/-
  TrC18 — the CURRENT SOURCE of the flat-tail checker (`NewFlatTailChecker`, `FlatTailChecker.Update`,
  `Reached`, `Stats` of pkg/basic/eigentrust.go, translated by tools/go2lean on every run) computes exactly
  the model's `FlatTailStats.init / update` on the ranking `rankOf` — the functions about which Props/C18
  proves run length, threshold, delta and the top-k ranking.  Property theorems only.

  The Go field `DeltaNorm` carries the model's squared delta (`toGStats`); `sort.Sort(EntriesByValue)` is the
  model's insertion sort (any sorted permutation; C18 excludes ties); the logger calls are not modelled.
-/
import EtVerif.Proofs.TrFlatTail

namespace EtVerif.TrC18
open EtVerif EtVerif.GoSem EtVerif.Gen EtVerif.Tr Scalar

variable {α : Type} [Scalar α]

set_option linter.unusedSectionVars false

/-- `NewFlatTailChecker` resets whatever statistics object it is given (or a fresh one) to the initial stats
    `(length 0, threshold 1, delta 1, ranking nil)`. -/
theorem newChecker_refines (len nl : Int) (s0 : Option (GFlatTailStats α)) :
    (Gen.NewFlatTailChecker len nl s0).map (fun r => r.2) =
      .ok { length := len, numLeaders := nl, stats := some (toGStats (FlatTailStats.init : FlatTailStats α)) } :=
  NewFlatTailChecker_refines len nl s0

/-- `FlatTailChecker.Update` = `FlatTailStats.update` on `rankOf` (the `numLeaders` highest-scored peers), for a
    non-empty vector and at least one leader (the one case where Go's nil-vs-empty slice distinction, which
    lists do not carry, would matter). -/
theorem update_refines (len : Int) (nl : Nat) (s : FlatTailStats α) (v : Vec α) (d : α)
    (hv : v.entries ≠ []) (hnl : 0 < nl) :
    (Gen.FlatTailChecker_Update { length := len, numLeaders := (nl : Int), stats := some (toGStats s) }
        (toGV v) d).map (fun r => r.1.c) =
      .ok { length := len, numLeaders := (nl : Int),
            stats := some (toGStats (s.update (rankOf v.entries nl) d)) } :=
  FlatTailChecker_Update_refines len nl s v d hv hnl

/-- `Reached` = "the current run of identical rankings is at least `length` long". -/
theorem reached_refines (len : Nat) (nl : Int) (s : FlatTailStats α) :
    (Gen.FlatTailChecker_Reached { length := (len : Int), numLeaders := nl, stats := some (toGStats s) }).map
        (fun r => r.2) = .ok (decide (s.length ≥ len)) :=
  FlatTailChecker_Reached_refines len nl s

theorem stats_refines (c : GFlatTailChecker α) (g : GFlatTailStats α) (h : c.stats = some g) :
    (Gen.FlatTailChecker_Stats c).map (fun r => r.2) = .ok g :=
  FlatTailChecker_Stats_refines c g h

end EtVerif.TrC18
