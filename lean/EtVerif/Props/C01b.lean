/-
  C01 (glue) — the sparse model of `Compute` over ℝ refines the dense iteration analysed in
  Props/C01, and therefore a `compute` that ends by convergence returns a vector whose L1 distance
  from the unique solution `t*` of `t = (1-a)·Cᵀt + a·p` is at most `((1-a)/a)·√n·e`.

  Property theorems only; helper lemmas live in Proofs/StepRefine.lean (sparse side) and
  Proofs/Dense.lean (analysis).

  Vocabulary: `toDense n es` = the dense vector `Fin n → ℝ` an entry list denotes;
  `denseC n c` = the dense `n × n` matrix a sparse matrix denotes; `Dense.F C p a t = (1-a)·Cᵀt + a·p`;
  `Dense.l1`, `Dense.l2` = the L1 / Euclidean norms; `Canon`, `Dist`, `WF`, `Sorted`, `iterate`,
  `deltaSq` as in Props/C02, Props/C05.
-/
import EtVerif.Proofs.StepRefine
import EtVerif.Props.C01

namespace EtVerif.C01b
open EtVerif EtVerif.Dense Scalar

/-- the dense vector of dimension `n` denoted by a sparse entry list -/
noncomputable def toDense (n : Nat) (es : List (Entry ℝ)) : Fin n → ℝ := fun i => denE es i

/-- the dense `n × n` matrix denoted by a sparse matrix -/
noncomputable def denseC (n : Nat) (c : CSM ℝ) : Fin n → Fin n → ℝ :=
  fun i j => denRows c.rows i j

/-! ## the sparse step / iterate is the dense step / iterate -/

/-- One loop body of the sparse model is `Dense.F` on the denoted dense data (any `a`, `p`). -/
theorem step_refines (n : Nat) (c : CSM ℝ) (hw : WFM c) (hmaj : c.major = n) (p : Vec ℝ) (a : ℝ)
    (t : List (Entry ℝ)) (ht : Sorted t) :
    toDense n (stepEntries c.transpose.rows (Vec.scale a p).entries (1 - a) t)
      = F (denseC n c) (toDense n p.entries) a (toDense n t) := by
  funext j
  simp only [toDense, F, denseC]
  rw [SR.step_den hw p a ht, hmaj, Finset.sum_range]

/-- `k` iterations of the sparse model are `k` iterations of `Dense.F`. -/
theorem iterate_refines (n : Nat) (c : CSM ℝ) (hw : WFM c) (hmaj : c.major = n)
    (hmin : c.minor = n) (p : Vec ℝ) (hd : p.dim = n) (hp : WF n p.entries) (a : ℝ)
    (t0 : List (Entry ℝ)) (ht0 : Sorted t0) (k : Nat) :
    toDense n (iterate c.transpose.rows (Vec.scale a p).entries (1 - a) k t0)
      = (F (denseC n c) (toDense n p.entries) a)^[k] (toDense n t0) := by
  have hs : ∀ k, Sorted (iterate c.transpose.rows (Vec.scale a p).entries (1 - a) k t0) := by
    intro k
    cases k with
    | zero => exact ht0
    | succ k =>
      unfold iterate
      rw [Function.iterate_succ_apply']
      exact (SR.step_wf hmin hd hp a _).1
  induction k with
  | zero => rfl
  | succ k ih =>
    have h1 : iterate c.transpose.rows (Vec.scale a p).entries (1 - a) (k + 1) t0
        = stepEntries c.transpose.rows (Vec.scale a p).entries (1 - a)
            (iterate c.transpose.rows (Vec.scale a p).entries (1 - a) k t0) := by
      unfold iterate
      rw [Function.iterate_succ_apply']
    rw [h1, step_refines n c hw hmaj p a _ (hs k), ih, Function.iterate_succ_apply']

/-! ## canonical sparse inputs denote row-stochastic dense inputs -/

/-- the denoted matrix is non-negative … -/
theorem denseC_nonneg (n : Nat) (c : CSM ℝ) (p : Vec ℝ) (hc : Canon n c p) :
    ∀ i j, 0 ≤ denseC n c i j :=
  fun i j => SR.denRows_nonneg hc.2.2.2.1 i j

/-- … and every row sums to 1 -/
theorem denseC_rowsum (n : Nat) (c : CSM ℝ) (p : Vec ℝ) (hc : Canon n c p) :
    ∀ i, ∑ j, denseC n c i j = 1 := by
  intro i
  have h := SR.denRows_rowsum hc i.isLt
  rw [Finset.sum_range] at h
  exact h

/-- a sparse distribution denotes a dense distribution -/
theorem toDense_dist (n : Nat) (t : List (Entry ℝ)) (h : Dist n t) :
    (∀ i, 0 ≤ toDense n t i) ∧ ∑ i, toDense n t i = 1 := by
  refine ⟨fun i => SR.denE_nonneg h.2.1 i, ?_⟩
  have := sum_denE h.1.2
  rw [Finset.sum_range, h.2.2] at this
  exact this

/-! ## the convergence verdict is `‖x − y‖₂ ≤ e` -/

/-- `ConvergenceChecker`: for well-formed vectors and a threshold `e ≥ 0`, the model's verdict
    `sqrt dsq ≤ e` on its squared delta is exactly `‖x − y‖₂ ≤ e` for the denoted vectors. -/
theorem check_iff_l2 (n : Nat) (x y : List (Entry ℝ)) (hx : WF n x) (hy : WF n y) (e : ℝ)
    (he : 0 ≤ e) :
    sqrtLe (deltaSq x y) e = true ↔ l2 (toDense n x - toDense n y) ≤ e := by
  simp only [s_sqrtLe, decide_eq_true_eq]
  rw [SR.deltaSq_eq hx hy, Finset.sum_range]
  unfold l2
  rw [Real.sqrt_le_left he, sq]
  rfl

/-! ## the property theorem -/

/-- **C01 for the sparse model.**  Canonical `c`, `p` of dimension `n`, `0 < a`; the initial
    vector, when one is given, is well-formed (its dimension, `a ≤ 1` and `0 < e` are validated by
    `compute` itself).  If `compute` — with any fuel, check schedule, iteration limit and
    flat-tail setting — succeeds and ended by its exit criteria, the returned vector is within
    `((1-a)/a)·√n·e` (L1) of every — hence of the unique — solution `t*` of
    `t = (1-a)·Cᵀt + a·p`. -/
theorem compute_converged_bound (n fuel : Nat) (c : CSM ℝ) (p : Vec ℝ) (a e : ℝ)
    (o : ComputeOpts ℝ) (hc : Canon n c p) (ha0 : 0 < a)
    (ht0 : ∀ t0, o.t0 = some t0 → WF n t0.entries)
    (r : ComputeResult ℝ) (h : compute fuel c p a e o = .ok r) (hcr : r.endedBy = .criteria)
    (tstar : Fin n → ℝ) (hstar : tstar = F (denseC n c) (toDense n p.entries) a tstar) :
    l1 (toDense n r.t.entries - tstar) ≤ ((1 - a) / a) * Real.sqrt n * e := by
  obtain ⟨hv, K', hlt, ht, hchk⟩ := SR.compute_criteria_inv fuel c p a e o r h hcr
  simp only [s_sub, s_one] at ht hchk
  have ha1 : a ≤ 1 := by
    have := hv.2.2.2.2.2.2.1
    simpa using this
  have he : 0 < e := by
    have := hv.2.2.2.2.2.2.2.1
    simpa using this
  have hstart : WF n (o.t0.getD p).entries := by
    cases h0 : o.t0 with
    | none => exact hc.dist.1
    | some t0 => exact ht0 t0 h0
  have hmaj := hc.1
  have hmin := hc.2.1
  have hd := hc.2.2.2.2.2.1
  have hp := hc.dist.1
  have hwf := SR.wf_iterate hmin hd hp a hstart
  have hl2 := (check_iff_l2 n _ _ (hwf r.iters) (hwf K') e he.le).mp hchk
  rw [iterate_refines n c hc.wfm hmaj hmin p hd hp a _ hstart.1,
    iterate_refines n c hc.wfm hmaj hmin p hd hp a _ hstart.1] at hl2
  obtain ⟨f, hf, hf1⟩ : ∃ f, r.iters = K' + f ∧ 1 ≤ f := ⟨r.iters - K', by omega, by omega⟩
  rw [ht]
  simp only
  rw [iterate_refines n c hc.wfm hmaj hmin p hd hp a _ hstart.1, hf]
  rw [hf] at hl2
  exact C01.converged_bound (denseC n c) (toDense n p.entries) a e (denseC_nonneg n c p hc)
    (denseC_rowsum n c p hc) ha0 ha1 tstar hstar _ K' f hf1 hl2

/-- The same with existence and uniqueness of the solution bundled: there is exactly one `t*`,
    and the converged return value is within the bound of it. -/
theorem compute_converged_bound_unique (n fuel : Nat) (c : CSM ℝ) (p : Vec ℝ) (a e : ℝ)
    (o : ComputeOpts ℝ) (hc : Canon n c p) (ha0 : 0 < a)
    (ht0 : ∀ t0, o.t0 = some t0 → WF n t0.entries)
    (r : ComputeResult ℝ) (h : compute fuel c p a e o = .ok r) (hcr : r.endedBy = .criteria) :
    ∃! tstar : Fin n → ℝ, tstar = F (denseC n c) (toDense n p.entries) a tstar ∧
      l1 (toDense n r.t.entries - tstar) ≤ ((1 - a) / a) * Real.sqrt n * e := by
  have ha1 : a ≤ 1 := by
    have := (C05.compute_spec fuel c p a e o r h).1.2.2.2.2.2.2.1
    simpa using this
  obtain ⟨tstar, hstar, huniq⟩ := C01.fixedpoint_exists_unique (denseC n c) (toDense n p.entries) a
    (denseC_nonneg n c p hc) (denseC_rowsum n c p hc) ha0 ha1
  exact ⟨tstar, ⟨hstar, compute_converged_bound n fuel c p a e o hc ha0 ht0 r h hcr tstar hstar⟩,
    fun t' ht' => huniq t' ht'.1⟩

/-- The solution `t*` is itself a distribution (so the bound compares two distributions). -/
theorem fixedpoint_dist (n : Nat) (c : CSM ℝ) (p : Vec ℝ) (a : ℝ) (hc : Canon n c p)
    (ha0 : 0 < a) (ha1 : a ≤ 1) (tstar : Fin n → ℝ)
    (hstar : tstar = F (denseC n c) (toDense n p.entries) a tstar) :
    (∀ i, 0 ≤ tstar i) ∧ ∑ i, tstar i = 1 :=
  C01.fixedpoint_distribution (denseC n c) (toDense n p.entries) a (denseC_nonneg n c p hc)
    (denseC_rowsum n c p hc) (toDense_dist n p.entries hc.dist).1 (toDense_dist n p.entries hc.dist).2
    ha0 ha1 tstar hstar

/-! ## non-vacuity: two peers trusting each other, uniform pre-trust, over ℝ -/

section examples

/-- `C = [[0,1],[1,0]]` -/
private def c2 : CSM ℝ := ⟨2, 2, [[⟨1, 1⟩], [⟨0, 1⟩]], []⟩
/-- `p = (1/2, 1/2)` -/
private noncomputable def p2 : Vec ℝ := ⟨2, [⟨0, 1/2⟩, ⟨1, 1/2⟩]⟩

private theorem canon2 : Canon 2 c2 p2 := by
  simp [Canon, WFM, WF, Sorted, c2, p2]
  norm_num

example : WFM c2 ∧ c2.major = 2 ∧ Sorted p2.entries := ⟨canon2.wfm, rfl, canon2.dist.1.1⟩

example : toDense 2 (stepEntries c2.transpose.rows (Vec.scale (1/3) p2).entries (1 - 1/3) p2.entries)
    = F (denseC 2 c2) (toDense 2 p2.entries) (1/3) (toDense 2 p2.entries) :=
  step_refines 2 c2 canon2.wfm rfl p2 (1/3) _ canon2.dist.1.1

/-- the uniform vector is not moved by a step (it is the solution `t*`) -/
private theorem step_p2 (j : Nat) :
    denE (stepEntries c2.transpose.rows (Vec.scale (1/3) p2).entries (1 - 1/3) p2.entries) j
      = denE p2.entries j := by
  rw [SR.step_den canon2.wfm p2 (1/3) canon2.dist.1.1]
  match j with
  | 0 => simp [Finset.sum_range_succ, denRows, c2, p2]; norm_num
  | 1 => simp [Finset.sum_range_succ, denRows, c2, p2]; norm_num
  | j + 2 => simp [Finset.sum_range_succ, denRows, c2, p2]

private theorem valid2 : ValidInput c2 p2 (1/3) (1/10) {} := by
  refine ⟨rfl, by decide, rfl, by simp, by simp, ?_, ?_, ?_, by decide, by decide, by decide⟩
  · simp
  · simp; norm_num
  · simp

/-- a `compute` over ℝ satisfying every hypothesis of `compute_converged_bound`: it ends by the
    criteria (at the first check) -/
example : ∃ r, compute 5 c2 p2 (1/3) (1/10) {} = .ok r ∧ r.endedBy = .criteria ∧
    ∀ tstar, tstar = F (denseC 2 c2) (toDense 2 p2.entries) (1/3) tstar →
      l1 (toDense 2 r.t.entries - tstar) ≤ ((1 - 1/3) / (1/3)) * Real.sqrt (2 : ℕ) * (1/10) := by
  have hz : deltaSq (stepEntries c2.transpose.rows (Vec.scale (1/3) p2).entries (1 - 1/3)
      p2.entries) p2.entries = 0 := by
    rw [SR.deltaSq_eq (SR.step_wf rfl rfl canon2.dist.1 (1/3) _) canon2.dist.1]
    apply Finset.sum_eq_zero
    intro i _
    rw [step_p2, sub_self]
    norm_num
  obtain ⟨r, hr, hcr, _⟩ := SR.first_check_converges 5 (by norm_num) c2 p2 (1/3) (1/10) valid2 hz
  exact ⟨r, hr, hcr, fun tstar hstar =>
    compute_converged_bound 2 5 c2 p2 (1/3) (1/10) {} canon2 (by norm_num) (by simp) r hr hcr
      tstar hstar⟩

end examples

end EtVerif.C01b
