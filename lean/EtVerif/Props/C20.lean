/-
  C20 — Playground result page.

  "the playground's result page lists every peer exactly once, ordered by descending score, with
   scores equal to the reference EigenTrust scores for alpha = confidence/100 (names file
   authoritative for the dimension, otherwise the larger of the two inputs; discounts applied)
   and with exactly the pre-trusted peers flagged. Unusable uploads produce the error page with
   status 400."

  `calculate fuel hundred eps u = some rows` is the result page (`rows` = its table),
  `none` is the error page (HTTP 400).  `hundred` / `eps` are the literals `100.0` / `1e-15`.
  Structural statements hold for every `Scalar α`; only the ordering needs an ordered field.

  Vocabulary (Proofs/FrontendLemmas.lean): `loadNames u` (the optional names file),
  `ArcOf` / `EntOf` / `cooDim` / `entDim` (the library readers, see C19), `alignDims` (the dimension
  rule as executed), `nameOf`, `rowsOf` (the unsorted table).
-/
import EtVerif.Proofs.FrontendLemmas
import Mathlib.Algebra.Order.Field.Rat
import Mathlib.Tactic.NormNum

namespace EtVerif.C20
open EtVerif EtVerif.Fe EtVerif.FeL Scalar

variable {α : Type} [Scalar α]

set_option linter.unusedSectionVars false

/-- The dimension rule: with a names file the number of names (and both inputs must fit),
    otherwise the larger of the local-trust and pre-trust dimensions (highest index + 1 each). -/
def DimRule (u : Upload α) (names : Option (List String)) (dim : Nat) : Prop :=
  loadNames u = some names ∧
  ∃ coos es, List.Forall₂ (ArcOf names) u.localTrust coos ∧ List.Forall₂ (EntOf names) u.preTrust es ∧
    match names with
    | some ns => dim = ns.length ∧ cooDim coos ≤ ns.length ∧ entDim es ≤ ns.length
    | none => dim = max (cooDim coos) (entDim es)

/-- the stages of a successful `calculate`, with the dimension rule made explicit -/
theorem stages {fuel : Nat} {hundred eps : α} {u : Upload α} {rows : List (Fe.Row α)}
    (h : calculate fuel hundred eps u = some rows) :
    ∃ hp names lt0 pt0 lt1 pt1 c d c' d' res,
      u.hunchPercent = some hp ∧ 0 ≤ hp ∧ hp ≤ 100 ∧ loadNames u = some names ∧
      readLocalTrust names u.localTrust = some lt0 ∧ readTrustVector names u.preTrust = some pt0 ∧
      alignDims names lt0 pt0 = some (lt1, pt1) ∧ extractDistrust lt1 = .ok (c, d) ∧
      canonicalizeLocalTrust c (some (canonicalizeTrustVector pt1)) = .ok c' ∧
      canonicalizeLocalTrust d none = .ok d' ∧
      compute fuel c' (canonicalizeTrustVector pt1) (div (ofNat hp.toNat) hundred) eps (pgOpts (div (ofNat hp.toNat) hundred) eps) = .ok res ∧
      rows = sortByScoreDesc (rowsOf names pt1 (discountTrustVector res.t d')) ∧
      DimRule u names pt1.dim := by
  obtain ⟨hp, names, lt0, pt0, lt1, pt1, c, d, c', d', res, h1, h2, h3, h4, h5, h6, h7, h8, h9,
    h10, h11, h12⟩ := calculate_some h
  refine ⟨hp, names, lt0, pt0, lt1, pt1, c, d, c', d', res, h1, h2, h3, h4, h5, h6, h7, h8, h9,
    h10, h11, h12, h4, ?_⟩
  obtain ⟨coos, hcoos, rfl⟩ := readLocalTrust_some h5
  obtain ⟨es, hes, rfl⟩ := readTrustVector_some h6
  refine ⟨coos, es, hcoos, hes, ?_⟩
  have := (alignDims_some h7).2
  cases names with
  | some ns => exact this
  | none => exact this

/-! ### 6. every peer exactly once; the dimension rule -/

/-- The table lists the peers `0 … dim-1`, each exactly once, where `dim` obeys the dimension
    rule (and is positive). -/
theorem rows_each_peer_once {fuel : Nat} {hundred eps : α} {u : Upload α} {rows : List (Fe.Row α)}
    (h : calculate fuel hundred eps u = some rows) :
    ∃ names dim, DimRule u names dim ∧ 0 < dim ∧ (rows.map (·.index)).Perm (List.range dim) := by
  obtain ⟨hp, names, lt0, pt0, lt1, pt1, c, d, c', d', res, _, _, _, _, _, _, _, _, h9, _, h11,
    rfl, hdim⟩ := stages h
  refine ⟨names, pt1.dim, hdim, ?_, ?_⟩
  · obtain ⟨hv, _⟩ := C05.compute_spec _ _ _ _ _ _ _ h11
    have h2 : c'.major ≠ 0 := hv.2.1
    have h3 : (canonicalizeTrustVector pt1).dim = c'.major := hv.2.2.1
    rw [canonTV_dim] at h3
    omega
  · rw [← rowsOf_index names pt1 (discountTrustVector res.t d')]
    exact (sortByScoreDesc_perm _).map _

/-! ### 7. ordered by descending score -/

/-- Over an ordered field the scores are non-increasing along the table. -/
theorem rows_sorted_desc {K : Type} [_root_.Field K] [LinearOrder K] {fuel : Nat}
    {hundred eps : K} {u : Upload K} {rows : List (Fe.Row K)}
    (h : calculate fuel hundred eps u = some rows) :
    rows.Pairwise (fun a b => b.score ≤ a.score) := by
  obtain ⟨_, _, _, _, _, _, _, _, _, _, _, _, _, _, _, _, _, _, _, _, _, _, rfl, _⟩ := stages h
  exact sorted_sortByScoreDesc _

/-! ### 8. the scores are the reference scores -/

/-- Every row carries the score `Compute` + `DiscountTrustVector` give its peer, computed on
    exactly the canonicalised inputs (pre-trust canonicalised — uniform when empty —, distrust
    extracted, local trust canonicalised with the pre-trust substituted for empty rows, discounts
    canonicalised), with `alpha = hunchPercent / 100` and default options; and the peer's name. -/
theorem rows_scores {fuel : Nat} {hundred eps : α} {u : Upload α} {rows : List (Fe.Row α)}
    (h : calculate fuel hundred eps u = some rows) :
    ∃ hp names lt0 pt0 lt1 pt1 c d c' d' res,
      u.hunchPercent = some hp ∧ 0 ≤ hp ∧ hp ≤ 100 ∧ loadNames u = some names ∧
      readLocalTrust names u.localTrust = some lt0 ∧ readTrustVector names u.preTrust = some pt0 ∧
      alignDims names lt0 pt0 = some (lt1, pt1) ∧ extractDistrust lt1 = .ok (c, d) ∧
      canonicalizeLocalTrust c (some (canonicalizeTrustVector pt1)) = .ok c' ∧
      canonicalizeLocalTrust d none = .ok d' ∧
      compute fuel c' (canonicalizeTrustVector pt1) (div (ofNat hp.toNat) hundred) eps (pgOpts (div (ofNat hp.toNat) hundred) eps) = .ok res ∧
      ∀ row ∈ rows, row.index < pt1.dim ∧
        row.score = denE (discountTrustVector res.t d').entries row.index ∧
        row.name = nameOf names row.index := by
  obtain ⟨hp, names, lt0, pt0, lt1, pt1, c, d, c', d', res, h1, h2, h3, h4, h5, h6, h7, h8, h9,
    h10, h11, rfl, _⟩ := stages h
  refine ⟨hp, names, lt0, pt0, lt1, pt1, c, d, c', d', res, h1, h2, h3, h4, h5, h6, h7, h8, h9,
    h10, h11, ?_⟩
  intro row hrow
  obtain ⟨a, b, c, _⟩ := mem_rowsOf ((sortByScoreDesc_perm _).mem_iff.mp hrow)
  exact ⟨a, c, b⟩

/-- The alignment only pads: the aligned inputs have the rule's dimension, the local trust is
    the parsed matrix resized to it and the pre-trust entries are the parsed ones. -/
theorem aligned_inputs {names : Option (List String)} {lt0 lt1 : CSM α} {pt0 pt1 : Vec α}
    (h : alignDims names lt0 pt0 = some (lt1, pt1)) :
    pt1.entries = pt0.entries ∧ lt0.major ≤ pt1.dim ∧ pt0.dim ≤ pt1.dim ∧
      (lt1 = lt0 ∨ lt1 = lt0.setDim pt1.dim pt1.dim) := by
  have h1 := alignDims_some h
  refine ⟨h1.1, ?_⟩
  unfold alignDims at h
  cases names with
  | some ns =>
    simp only at h h1
    split at h
    · cases h
    · simp only [Option.some.injEq, Prod.mk.injEq] at h
      obtain ⟨rfl, _⟩ := h
      refine ⟨by omega, by omega, ?_⟩
      split
      · right; rw [h1.2.1]
      · left; rfl
  | none =>
    simp only at h h1
    split at h
    · cases h
      exact ⟨by omega, by omega, Or.inr rfl⟩
    · split at h
      · cases h
        have hd : (pt0.setDim lt0.major).dim = lt0.major := vec_setDim_dim _ _
        exact ⟨by omega, by omega, Or.inl rfl⟩
      · cases h
        exact ⟨by omega, by omega, Or.inl rfl⟩

/-! ### 9. exactly the pre-trusted peers are flagged -/

/-- A row is flagged iff some pre-trust record names its peer; and every peer named by a
    pre-trust record is below the dimension, so the flag table (`make([]bool, dim)`) is never
    indexed out of range. -/
theorem flags_exact {fuel : Nat} {hundred eps : α} {u : Upload α} {rows : List (Fe.Row α)}
    (h : calculate fuel hundred eps u = some rows) :
    ∃ names dim, DimRule u names dim ∧
      (∀ row ∈ rows, row.index < dim ∧
        (row.flagged = true ↔
          ∃ r ∈ u.preTrust, ∃ f rest, r = f :: rest ∧ parsePeerId names f = some row.index)) ∧
      (∀ r ∈ u.preTrust, ∀ f rest i, r = f :: rest → parsePeerId names f = some i → i < dim) := by
  obtain ⟨hp, names, lt0, pt0, lt1, pt1, c, d, c', d', res, _, _, _, _, _, h6, h7, _, _, _, _,
    rfl, hdim⟩ := stages h
  obtain ⟨es, hes, rfl⟩ := readTrustVector_some h6
  obtain ⟨hent, _, hle, _⟩ := aligned_inputs h7
  have hmem : ∀ i, (∃ e ∈ pt1.entries, e.idx = i) ↔
      ∃ r ∈ u.preTrust, ∃ f rest, r = f :: rest ∧ parsePeerId names f = some i := by
    intro i
    rw [hent]
    constructor
    · rintro ⟨e, he, rfl⟩
      have he' : e ∈ es := (sortByIdx_perm es).mem_iff.mp he
      obtain ⟨r, hr, f0, rest, hreq, hp0, _⟩ := forall₂_mem_right hes he'
      exact ⟨r, hr, f0, rest, hreq, hp0⟩
    · rintro ⟨r, hr, f, rest, rfl, hp0⟩
      obtain ⟨e, he, f0, rest', hreq, hp0', _⟩ := forall₂_mem_left hes hr
      simp only [List.cons.injEq] at hreq
      obtain ⟨rfl, rfl⟩ := hreq
      rw [hp0] at hp0'
      exact ⟨e, (sortByIdx_perm es).mem_iff.mpr he, (Option.some.inj hp0').symm⟩
  refine ⟨names, pt1.dim, hdim, ?_, ?_⟩
  · intro row hrow
    obtain ⟨a, _, _, hf⟩ := mem_rowsOf ((sortByScoreDesc_perm _).mem_iff.mp hrow)
    refine ⟨a, ?_⟩
    rw [hf, ← hmem]
    simp only [List.any_eq_true, beq_iff_eq]
  · intro r hr f rest i hreq hp0
    obtain ⟨e, he, rfl⟩ := (hmem i).mpr ⟨r, hr, f, rest, hreq, hp0⟩
    rw [hent] at he
    have := lt_entDim ((sortByIdx_perm es).mem_iff.mp he)
    simp only [Vec.new] at hle
    omega

/-! ### 10. unusable uploads give the error page (400) -/

/-- `hunchPercent` missing or not an integer, or outside `0..100`; a names file with an empty
    record or a duplicate name; a malformed local-trust or pre-trust record; local trust or
    pre-trust larger than the names list: each produces the error page. -/
theorem unusable_is_400 (fuel : Nat) (hundred eps : α) (u : Upload α)
    (h : u.hunchPercent = none ∨
      (∃ hp, u.hunchPercent = some hp ∧ (hp < 0 ∨ 100 < hp)) ∨
      (∃ recs, u.names = some recs ∧ readPeerNames recs [] = none) ∨
      (∃ names, loadNames u = some names ∧
        (readLocalTrust names u.localTrust = none ∨ readTrustVector names u.preTrust = none ∨
          ∃ ns lt0 pt0, names = some ns ∧ readLocalTrust names u.localTrust = some lt0 ∧
            readTrustVector names u.preTrust = some pt0 ∧
            (ns.length < lt0.major ∨ ns.length < pt0.dim)))) :
    calculate fuel hundred eps u = none := by
  cases hc : calculate fuel hundred eps u with
  | none => rfl
  | some rows =>
    exfalso
    obtain ⟨hp, names, lt0, pt0, lt1, pt1, c, d, c', d', res, h1, h2, h3, h4, h5, h6, h7, _⟩ :=
      calculate_some hc
    rcases h with h | ⟨hp', h, hr⟩ | ⟨recs, hn, hr⟩ | ⟨names', hn, hr⟩
    · rw [h] at h1; cases h1
    · rw [h] at h1; cases h1; omega
    · unfold loadNames at h4
      rw [hn] at h4
      simp only at h4
      rw [hr] at h4
      cases h4
    · rw [hn] at h4
      cases h4
      rcases hr with hr | hr | ⟨ns, lt0', pt0', rfl, hl, hp0, hbig⟩
      · rw [hr] at h5; cases h5
      · rw [hr] at h6; cases h6
      · rw [hl] at h5
        rw [hp0] at h6
        cases h5
        cases h6
        have := (alignDims_some h7).2
        simp only at this
        omega

/-- the reasons of `unusable_is_400`, phrased on the uploaded records (C19 characterises the
    reader errors): a bad names / local-trust / pre-trust record -/
theorem unusable_records (fuel : Nat) (hundred eps : α) (u : Upload α)
    (h : (∃ recs, u.names = some recs ∧ ((∃ r ∈ recs, r = []) ∨ ¬ (recs.map firstName).Nodup)) ∨
      (∃ names, loadNames u = some names ∧
        ((∃ r ∈ u.localTrust, ltParse names r = none) ∨ ∃ r ∈ u.preTrust, tvParse names r = none))) :
    calculate fuel hundred eps u = none := by
  apply unusable_is_400
  rcases h with ⟨recs, hn, hbad⟩ | ⟨names, hn, hbad⟩
  · refine Or.inr (Or.inr (Or.inl ⟨recs, hn, ?_⟩))
    cases hr : readPeerNames recs [] with
    | none => rfl
    | some ns =>
      exfalso
      obtain ⟨h1, h2, h3, _⟩ := (readPeerNames_acc recs [] ns).mp hr
      rcases hbad with ⟨r, hr', rfl⟩ | hnd
      · exact h1 _ hr' rfl
      · exact hnd h3
  · refine Or.inr (Or.inr (Or.inr ⟨names, hn, ?_⟩))
    rcases hbad with hb | hb
    · left
      rw [readLocalTrust_eq, Option.map_eq_none_iff]
      exact (mapM_eq_none_iff _ _).mpr hb
    · right; left
      rw [readTrustVector_eq, Option.map_eq_none_iff]
      exact (mapM_eq_none_iff _ _).mpr hb

/-! ### non-vacuity: a concrete upload at `ℚ`

`ℚ` carries two `Scalar` instances: the executable `ratScalar` (evaluated here by the kernel) and
the proof instance `fieldScalar`; they are equal (`rat_eq_field`), so the runs transfer. -/

section examples

theorem rat_eq_field : (ratScalar : Scalar ℚ) = fieldScalar := by
  unfold ratScalar fieldScalar
  congr 1
  · funext x
    unfold ratAbs
    split
    · rename_i h; exact (abs_of_neg h).symm
    · rename_i h; exact (abs_of_nonneg (not_lt.mp h)).symm

attribute [local instance 10000] ratScalar

private def fld (s : String) (a : Option Int := none) (x : Option ℚ := none) : Fe.Field ℚ :=
  ⟨s, a, a, x⟩

/-- names alice,bob,carol,dave; alice→bob 1, bob→carol 1 (default), carol→alice 2, carol→bob -1
    (distrust); pre-trust alice; confidence 50 % -/
private def up : Upload ℚ :=
  { names := some [[fld "alice"], [fld "bob"], [fld "carol"], [fld "dave"]]
    localTrust := [[fld "alice", fld "bob", fld "1" (some 1) (some 1)],
                   [fld "bob", fld "carol"],
                   [fld "carol", fld "alice", fld "2" (some 2) (some 2)],
                   [fld "carol", fld "bob", fld "-1" (some (-1)) (some (-1))]]
    preTrust := [[fld "alice"]]
    hunchPercent := some 50 }

private def view (r : Option (List (Fe.Row ℚ))) : Option (List (Nat × String × Bool)) :=
  r.map fun rows => rows.map fun x => (x.index, x.name, x.flagged)
private def viewS (r : Option (List (Fe.Row ℚ))) : Option (List (Nat × ℚ)) :=
  r.map fun rows => rows.map fun x => (x.index, x.score)

/-- a result page: four rows (dave is only in the names file), alice flagged, descending scores -/
example : view (calculate 200 100 (1/1000) up) =
    some [(0, "alice", true), (2, "carol", false), (1, "bob", false), (3, "dave", false)] := by
  decide +kernel
example : viewS (calculate 200 100 (1/1000) up) =
    some [(0, 585/1024), (2, 293/2048), (1, 73/512), (3, 0)] := by
  decide +kernel

/-- hence the hypotheses of the theorems above are satisfiable, also at the proof instance -/
example : ∃ rows, @calculate ℚ fieldScalar 200 100 (1/1000) up = some rows := by
  rw [← rat_eq_field]
  cases h : calculate 200 100 (1/1000) up with
  | some rows => exact ⟨rows, rfl⟩
  | none =>
    have : view (calculate 200 100 (1/1000) up) ≠ none := by decide +kernel
    rw [h] at this
    exact absurd rfl this

/-- without a names file the dimension is the larger input: pre-trust names peer 4 -/
example : (view (calculate 200 100 (1/1000)
      { up with names := none
                localTrust := [[fld "0" (some 0), fld "1" (some 1)], [fld "1" (some 1), fld "0" (some 0)]]
                preTrust := [[fld "4" (some 4)]] })).map (fun l => l.map (·.1)) =
    some [4, 3, 2, 1, 0] := by
  decide +kernel

/-- error pages -/
example : calculate 200 100 (1/1000) { up with hunchPercent := none } = none := by decide +kernel
example : calculate 200 100 (1/1000) { up with hunchPercent := some 101 } = none := by decide +kernel
example : calculate 200 100 (1/1000) { up with names := some [[fld "alice"], [fld "alice"]] } = none := by
  decide +kernel
example : calculate 200 100 (1/1000) { up with names := some [[fld "alice"], [fld "bob"]] } = none := by
  decide +kernel
example : calculate 200 100 (1/1000) { up with preTrust := [[fld "eve"]] } = none := by
  decide +kernel

end examples

end EtVerif.C20
