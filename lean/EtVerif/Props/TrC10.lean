/-
  TrC10 — the CURRENT SOURCE of `CSMatrix.Dim`, `CSMatrix.NNZ`, `CSMatrix.SetMinorDim`, `CSMatrix.Transpose` (translated by
  tools/go2lean on every run) computes exactly the model's `CSM.dim`, `CSM.nnz`, `CSM.setMinorDim`.
  `NewCSRMatrix`, `RowVector`, `SetRowVector` likewise.
  (`SetMajorDim` reslices within the capacity of the backing array, which the translation's list
  semantics does not carry: it stays hand-modelled with the `hidden` rows, tied by correspondence.)
  Property theorems only.
-/
import EtVerif.Proofs.TrMatSmall
import EtVerif.Proofs.TrSetDim
import EtVerif.Proofs.TrTranspose
import EtVerif.Proofs.TrNewCSR

namespace EtVerif.TrC10
open EtVerif EtVerif.GoSem EtVerif.Gen EtVerif.Tr Scalar

variable {α : Type} [Scalar α]

set_option linter.unusedSectionVars false

/-- matrix.go `CSMatrix.Dim`: the dimension of a square matrix, else ErrDimensionMismatch. -/
theorem dim (m : CSM α) :
    (CSMatrix_Dim (toGM m)).map (fun r => r.2) =
      (match m.dim with
       | .ok n => .ok ((n : Int), none)
       | .error _ => .ok ((0 : Int), some ⟨"ErrDimensionMismatch"⟩)) :=
  CSMatrix_Dim_refines m

/-- matrix.go `CSMatrix.NNZ` = number of stored entries. -/
theorem nnz (m : CSM α) : (CSMatrix_NNZ (toGM m)).map (fun r => r.2) = .ok ((m.nnz : Nat) : Int) :=
  CSMatrix_NNZ_refines m

/-- matrix.go `CSMatrix.SetMinorDim`: per-row binary search + truncation = the model's `takeWhile` crop,
    for matrices whose rows are index-sorted. -/
theorem setMinorDim (m : CSM α) (d : Nat) (hs : ∀ r ∈ m.rows, sortedStrict r = true) :
    (CSMatrix_SetMinorDim (toGM m) (d : Int)).map (fun r => r.1.m) = .ok (toGM (m.setMinorDim d)) :=
  CSMatrix_SetMinorDim_refines m d hs

/-- matrix.go `CSMatrix.Transpose` (counting pass + scatter pass) = the model's `CSM.transpose`, for every
    matrix whose stored column indices are all `< minor` (otherwise Go panics on `nnzs[e.Index]`); the number
    of rows need not equal `major`; the cancellation poll is not part of the translation (C07). -/
theorem transpose_refines (m : CSM α) (hc : m.colsInRange = true) :
    (Gen.CSMatrix_Transpose (toGM m)).map (fun r => r.2) = .ok (toGM m.transpose, none) :=
  CSMatrix_Transpose_refines m hc

/-- matrix.go `NewCSRMatrix` = the model's `CSM.newCSR`: bucket every kept coordinate into its row in input order
    (zeros dropped unless `includeZero`), sort every row by column (`sort.Sort` = any sorted permutation: the
    model's insertion sort; the in-place sort through the range variable is carried by a write-through view), for
    coordinate lists whose kept entries have a row index `< rows` (otherwise Go panics on `entries2[e.Row]`). -/
theorem newCSR_refines (rows cols : Nat) (es : List (Coo α)) (incl : Bool)
    (hr : cooRowsInRange rows es incl = true) :
    (Gen.NewCSRMatrix (rows : Int) (cols : Int) (es.map toGCoo) incl).map (fun r => r.2) =
      .ok (toGM (CSM.newCSR rows cols es incl)) :=
  NewCSRMatrix_refines rows cols es incl hr

/-- matrix.go `CSRMatrix.RowVector` / `SetRowVector` (in-range row). -/
theorem rowVector_refines (m : CSM α) (i : Nat) (h : i < m.rows.length) :
    (Gen.CSRMatrix_RowVector (toGM m) (i : Int)).map (fun r => r.2) = .ok (toGV (m.rowVec i)) :=
  CSRMatrix_RowVector_refines m i h

theorem setRowVector_refines (m : CSM α) (i : Nat) (v : Vec α) (h : i < m.rows.length) :
    (Gen.CSRMatrix_SetRowVector (toGM m) (i : Int) (toGV v)).map (fun r => r.1.m) =
      .ok (toGM { m with rows := m.rows.set i v.entries }) :=
  CSRMatrix_SetRowVector_refines m i v h

/-- non-vacuity. -/
example : ∀ r ∈ ([[⟨0, 1⟩, ⟨2, 3⟩], []] : List (List (Entry Rat))), sortedStrict r = true := by decide

end EtVerif.TrC10
