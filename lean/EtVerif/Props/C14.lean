/-
  C14 — Compute never alters stored inputs; stored and inline references agree.

  What a *pure* model can carry of this property:
  * `compute_reads_only` : in any history mixing computes with store requests, the store evolves
    exactly as if the computes were not there (a compute returns no new store);
  * `compute_snapshot`   : the answer to a compute that references a stored id is a function of the
    content stored under that id at that moment — later PUT / merge / DELETE cannot influence it,
    and requests on other ids never do;
  * stored = inline      : `C03.stored_request_reduces` / `C03.stored_eq_inline` (re-audited here).
  What it cannot carry — Go-level aliasing between the working copy and the stored matrix — is
  tied by the regenerated fact `Facts.storeShape.loadStoredDeepCopiesUnderLock`
  (`Ties.source_store_safe`) and exercised by the correspondence (GET before/after byte-identical).
-/
import EtVerif.Props.C03
import EtVerif.Props.TieStore

namespace EtVerif.C14
open EtVerif EtVerif.Oapi

variable {α : Type} [Scalar α]

/-- a mixed history: store requests and computes -/
inductive Req (α : Type) where
  | store (q : StoreReq α)
  | compute (r : ComputeReq α)

/-- the server's state after a mixed history (computes answer from the current store) -/
def runMixed (fuel : Nat) (k : Consts α) : Store α → List (Req α) → Store α
  | s, [] => s
  | s, .store q :: rest => runMixed fuel k (handleStore s q).1 rest
  | s, .compute _ :: rest => runMixed fuel k s rest

def storeOnly : List (Req α) → List (StoreReq α)
  | [] => []
  | .store q :: rest => q :: storeOnly rest
  | .compute _ :: rest => storeOnly rest

def runStoreOnly : Store α → List (StoreReq α) → Store α
  | s, [] => s
  | s, q :: rest => runStoreOnly (handleStore s q).1 rest

/-- Computes never alter the store: the final store of any mixed history is the final store of the
    same history with every compute removed. -/
theorem compute_reads_only (fuel : Nat) (k : Consts α) (s : Store α) (h : List (Req α)) :
    runMixed fuel k s h = runStoreOnly s (storeOnly h) := by
  induction h generalizing s with
  | nil => rfl
  | cons q rest ih =>
    cases q with
    | store q => simp [runMixed, storeOnly, runStoreOnly, ih]
    | compute r => simp [runMixed, storeOnly, ih]

/-- The answer to a compute depends on the store only through the content of the id it references. -/
theorem compute_snapshot (fuel : Nat) (k : Consts α) (s s' : Store α) (r : ComputeReq α)
    (h : ∀ id, r.localTrust = .stored id → s.get? id = s'.get? id) :
    handleCompute fuel k s r = handleCompute fuel k s' r ∧
    handleComputeWithStats fuel k s r = handleComputeWithStats fuel k s' r := by
  have hl : loadMatrix s r.localTrust = loadMatrix s' r.localTrust := by
    cases hr : r.localTrust with
    | inline m => simp [loadMatrix]
    | stored id => simp [loadMatrix, h id hr]
    | objectStorage u => simp [loadMatrix]
    | unknown u => simp [loadMatrix]
  have hp : prepare k s r = prepare k s' r := by
    unfold prepare
    rw [hl]
  have hc : computeCore fuel k s r = computeCore fuel k s' r := by
    unfold computeCore
    rw [hp]
  constructor
  · unfold handleCompute; rw [hc]
  · unfold handleComputeWithStats; rw [hc]

/-- Requests on OTHER ids never influence a compute on `id`. -/
theorem compute_unaffected_by_other_ids (fuel : Nat) (k : Consts α) (s : Store α) (r : ComputeReq α)
    (id : String) (hr : r.localTrust = .stored id) (q : StoreReq α)
    (hq : ∀ id', (handleStore s q).1.get? id' ≠ s.get? id' → id' ≠ id) :
    handleCompute fuel k (handleStore s q).1 r = handleCompute fuel k s r := by
  refine (compute_snapshot fuel k _ _ r ?_).1
  intro id' h'
  rw [hr] at h'
  cases h'
  by_contra hne
  exact hq id hne rfl

end EtVerif.C14
