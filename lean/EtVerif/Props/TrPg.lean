/-
  TrPg — the CURRENT SOURCE of the playground's `iterationBound` (internal/playground/engine.go; the float loop added
  by the repair e85c9dc, translated by tools/go2lean on every run) computes exactly the model's `pgIterBound`, the
  count `Props/C15.bounded_computation_playground` and `Props/C20` rest on — for every `Scalar` (so whatever the
  floats do: NaN, alpha 0 or 1, negative epsilon) and every fuel ≥ 65536, which makes it a termination proof of the Go
  loop as well.  Property theorems only.
-/
import EtVerif.Proofs.TrPlayground

namespace EtVerif.TrPg
open EtVerif EtVerif.GoSem EtVerif.Gen EtVerif.Tr Scalar

variable {α : Type} [Scalar α]

set_option linter.unusedSectionVars false

/-- Go `iterationBound(a, e)` = the model's `pgIterBound a e`. -/
theorem iterationBound_refines (fuel : Nat) (a e : α) (hf : 65536 ≤ fuel) :
    (Gen.iterationBound fuel a e).map (fun r => r.2) = .ok ((Fe.pgIterBound a e : Nat) : Int) :=
  Tr.iterationBound_refines fuel a e hf

/-- … and the count it hands to `WithMaxIterations` lies between 2 and 65536, for all inputs. -/
theorem iterationBound_range (fuel : Nat) (a e : α) (hf : 65536 ≤ fuel) :
    ∃ st n, Gen.iterationBound fuel a e = .ok (st, n) ∧ 2 ≤ n ∧ n ≤ 65536 :=
  Tr.iterationBound_range fuel a e hf

end EtVerif.TrPg
