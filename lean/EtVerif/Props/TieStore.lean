/-
  Tie theorem: a structural fact regenerated from /repo's source by tools/gofacts on every run
  (Gen/Facts.lean) must satisfy the predicate the model-level theorems are stated for.  The `decide`
  below FAILS (and the check reports it) as soon as the extracted shape stops satisfying it.
-/
import EtVerif.Gen.Facts

namespace EtVerif.Ties
open EtVerif

/-- C13 / C14 / C16 / C17: store primitives, deep copies under the lock, 400 on unusable body,
    timestamp only advanced. -/
theorem source_store_safe : Facts.storeShape.safe = true := by decide

end EtVerif.Ties
