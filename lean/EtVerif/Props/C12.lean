/-
  C12 — Swapping a matrix out to a memory-mapped temp file is transparent and leak-free.
  Property theorems only (helper lemmas live in Proofs/MmapLemmas.lean).

  Model: Model/Mmap.lean (`Mm.mmap`, `Mm.munmap`, `Mm.reset`, `Mm.finalize`, `Mm.merge`,
  `Mm.setDim`) mirroring pkg/sparse/matrix.go `Mmap`, `Munmap`, `Reset`, `finalize`, `Merge`.
  A state `MState α` is a matrix `m`, one location tag per row (`Loc.heap` / `Loc.map id`), the
  adopted mapping `mapped` and the process ledger `led` (temp files, descriptors, live mappings).

  Vocabulary (Proofs/MmapLemmas.lean):
  * `MInv s` — one tag per row; `led.files = []`, `led.fds = []`, `led.maps` = the adopted mapping
    only; no non-empty row is tagged with a mapping other than the adopted one (no dangling
    pointer); all ledger ids are below the id supply.
  * `HClean M` — every row of `Entries[len:cap]` is nil (`HiddenClean` of C10/C11, any scalar).
  * `alreadyClean s` — the "already mapped" test; `cancelled f s` — the context is cancelled at a
    poll of the copy loop; `okSt`, `failSt`, `cancelSt`, `removeSt` — the four exits of the slow path.
  * `Op`, `step`, `run` — histories of operations; `stepPlain`, `runPlain` — the same history on a
    plain heap matrix (swap-out, swap-in, finalisation are no-ops); `NoRemoveFault ops`.

  Everything except the "dense" corollaries holds for an arbitrary `Scalar α`.
  Limits of the model (not of the proofs): `syscall.Munmap` never fails; one ledger per state.
-/
import EtVerif.Proofs.MmapLemmas
import EtVerif.Props.C10
import EtVerif.Props.C11
import Mathlib.Algebra.Order.Field.Rat

namespace EtVerif.C12
open EtVerif EtVerif.Mm

variable {α : Type} [Scalar α]

set_option linter.unusedSectionVars false

/-! ## 1. Transparency: contents never depend on swap-out, faults or cancellation -/

/-- 1. `Mmap` keeps every visible row and both dimensions — for every fault choice and outcome. -/
theorem mmap_transparent (f : Faults) (s : MState α) :
    (mmap f s).1.m.rows = s.m.rows ∧ (mmap f s).1.m.major = s.m.major ∧
    (mmap f s).1.m.minor = s.m.minor :=
  ⟨mmap_rows f s, mmap_major f s, mmap_minor f s⟩

/-- 1. `Munmap` keeps every visible row and both dimensions. -/
theorem munmap_transparent (s : MState α) :
    (munmap s).m.rows = s.m.rows ∧ (munmap s).m.major = s.m.major ∧
    (munmap s).m.minor = s.m.minor :=
  ⟨munmap_rows s, munmap_major s, munmap_minor s⟩

/-- 1. The finalizer keeps every visible row and both dimensions. -/
theorem finalize_transparent (s : MState α) :
    (finalize s).m.rows = s.m.rows ∧ (finalize s).m.major = s.m.major ∧
    (finalize s).m.minor = s.m.minor :=
  munmap_transparent s

/-- 1. Resizing a swapped-out matrix acts on the matrix exactly as `CSM.setDim` (C10). -/
theorem setDim_acts (s : MState α) (r c : Nat) : (setDim s r c).m = s.m.setDim r c := rfl

/-- 1. Merging into a (possibly swapped-out) receiver from a (possibly swapped-out) update acts
    on the matrices exactly as `CSM.merge` (C11) on the receiver and the swapped-in update; the
    update is `Reset` afterwards. -/
theorem merge_acts (s u : MState α) :
    (merge s u).1.m = (s.m.merge (munmap u).m).1 ∧ (merge s u).2 = reset u ∧
    (merge s u).2.m = CSM.empty :=
  ⟨rfl, rfl, rfl⟩

/-- 1. `Reset` leaves the empty 0×0 matrix. -/
theorem reset_empties (s : MState α) : (reset s).m = CSM.empty ∧ (reset s).locs = [] :=
  ⟨rfl, rfl⟩

/-- 1. For every history — any interleaving of swap-outs (with arbitrary faults and
    cancellations), swap-ins, finalisations, resets, resizes and merges — the visible rows and
    dimensions equal those obtained by running the same history on a plain heap matrix with
    `Mmap`/`Munmap`/`finalize` as no-ops.  (`HClean`: the invisible part of the row table holds
    nil rows only, as it does after the C10 repair; without it `Munmap`, which drops
    `Entries[len:cap]`, would hide rows that a later `SetMajorDim` re-exposes.) -/
theorem transparent_history (s : MState α) (hc : HClean s.m) (ops : List (Op α)) :
    (run s ops).m.rows = (runPlain s.m ops).rows ∧
    (run s ops).m.major = (runPlain s.m ops).major ∧
    (run s ops).m.minor = (runPlain s.m ops).minor ∧
    HClean (run s ops).m := by
  have h := run_sim (s := s) (p := s.m) ⟨rfl, rfl, rfl, hc, hc⟩ ops
  exact ⟨h.1, h.2.1, h.2.2.1, h.2.2.2.1⟩

section dense
variable {K : Type} [Field K] [LinearOrder K]

/-- 1 (dense). The dense contents after any history are those of the plain run. -/
theorem transparent_history_dense (s : MState K) (hc : HiddenClean s.m) (ops : List (Op K)) :
    denRows (run s ops).m.rows = denRows (runPlain s.m ops).rows := by
  rw [(transparent_history s hc ops).1]

/-- 1 (dense). Merging into or out of a swapped-out matrix is the C11 overlay, cell by cell. -/
theorem merge_swapped_dense (s u : MState K) (hs : WFM s.m) (hc : HiddenClean s.m)
    (hu : WFM u.m) (i j : Nat) :
    denRows (merge s u).1.m.rows i j =
      if ∃ e ∈ u.m.rows.getD i [], e.idx = j then denRows u.m.rows i j
      else denRows s.m.rows i j := by
  have hu' : WFM (munmap u).m := by
    unfold WFM
    rw [munmap_rows, munmap_major, munmap_minor]
    exact hu
  have h := (C11.merge_matrix s.m (munmap u).m hs hc hu').2.2.2.2.2 i j
  rw [munmap_rows] at h
  exact h

/-- 1 (dense). Resizing a swapped-out matrix is the C10 crop-and-zero-pad, cell by cell. -/
theorem setDim_swapped_dense (s : MState K) (hs : WFM s.m) (hc : HiddenClean s.m)
    (r c i j : Nat) :
    denRows (setDim s r c).m.rows i j = if i < r ∧ j < c then denRows s.m.rows i j else 0 :=
  C10.setDim_den s.m hs hc r c i j

/-- 1 (dense). Swap-out, swap-in and finalisation keep every cell. -/
theorem swap_dense (f : Faults) (s : MState K) :
    denRows (mmap f s).1.m.rows = denRows s.m.rows ∧
    denRows (munmap s).m.rows = denRows s.m.rows ∧
    denRows (finalize s).m.rows = denRows s.m.rows := by
  rw [mmap_rows, munmap_rows, (finalize_transparent s).1]
  exact ⟨rfl, rfl, rfl⟩

end dense

/-! ## 2. After a successful swap-out the non-empty rows live in the mapping -/

/-- 2. After a successful `Mmap` every non-empty row is tagged with the adopted mapping, and a
    mapping is adopted whenever there is a non-empty row (only the "one tag per row" part of the
    invariant is needed). -/
theorem mmap_offheap_of_len (f : Faults) (s : MState α) (hl : s.locs.length = s.m.rows.length)
    (hok : (mmap f s).2 = .ok ()) :
    inMapCount (mmap f s).1 = nonEmptyCount (mmap f s).1 ∧
    (nonEmptyCount (mmap f s).1 > 0 → (mmap f s).1.mapped ≠ none) := by
  rw [mmap_eq] at hok ⊢
  by_cases hc : alreadyClean s = true
  · rw [if_pos hc]
    obtain ⟨id, hm, hd⟩ := (alreadyClean_iff s).mp hc
    refine ⟨inMapCount_eq_of_not_dirty hm hl hd, fun _ => ?_⟩
    simp only [hm]; exact fun e => by cases e
  · rw [if_neg hc] at hok ⊢
    by_cases h0 : s.m.nnz = 0
    · rw [if_pos h0]
      have hz : nonEmptyCount (munmap s) = 0 :=
        nonEmptyCount_eq_zero_of_empty (by unfold CSM.nnz at h0 ⊢; rw [munmap_rows]; exact h0)
      simp only []
      refine ⟨?_, fun hpos => by omega⟩
      rw [hz]
      unfold inMapCount
      rw [munmap_mapped]
    · rw [if_neg h0] at hok ⊢
      by_cases h1 : f.createTemp = true
      · rw [if_pos h1] at hok; cases hok
      · rw [if_neg h1] at hok ⊢
        by_cases h2 : f.truncate = true
        · rw [if_pos h2] at hok; cases hok
        · rw [if_neg h2] at hok ⊢
          by_cases h3 : f.mmapSys = true
          · rw [if_pos h3] at hok; cases hok
          · rw [if_neg h3] at hok ⊢
            by_cases h4 : f.remove = true
            · rw [if_pos h4] at hok; cases hok
            · rw [if_neg h4] at hok ⊢
              by_cases h5 : cancelled f s = true
              · rw [if_pos h5] at hok; cases hok
              · rw [if_neg h5]
                refine ⟨inMapCount_eq_of_not_dirty (id := s.led.next + 1) rfl (by simp [okSt])
                  (okSt_not_dirty s), fun _ e => ?_⟩
                simp [okSt] at e

/-- 2. The same under the full invariant. -/
theorem mmap_offheap (f : Faults) (s : MState α) (h : MInv s) (hok : (mmap f s).2 = .ok ()) :
    inMapCount (mmap f s).1 = nonEmptyCount (mmap f s).1 ∧
    (nonEmptyCount (mmap f s).1 > 0 → (mmap f s).1.mapped ≠ none) :=
  mmap_offheap_of_len f s h.len hok

/-- 2. `Mmap` of a matrix without stored entries does nothing at all: no file is created, nothing
    is mapped, nothing is released (whatever the faults).

    NOTE (reported): the statement "`s.m.nnz = 0 →` afterwards `mapped = none`" is false for the
    model and for the Go code when the receiver already holds a mapping — see
    `mmap_empty_keeps_stale_mapping` below: the "already mapped" test succeeds (there is no
    non-empty row that could be dirty), so the `nnz == 0` branch that would `Munmap()` the stale
    mapping is unreachable with `m.mapped != nil`. -/
theorem mmap_empty_noop (f : Faults) (s : MState α) (h0 : s.m.nnz = 0) :
    mmap f s = (s, .ok ()) :=
  mmap_of_empty h0 f

/-- 2. Nothing is mapped for an empty matrix that holds no mapping yet. -/
theorem mmap_empty_unmapped (f : Faults) (s : MState α) (h0 : s.m.nnz = 0)
    (hm : s.mapped = none) : (mmap f s).1.mapped = none ∧ (mmap f s).1.led = s.led := by
  rw [mmap_empty_noop f s h0]
  exact ⟨hm, rfl⟩

/-! ## 3. The resource ledger -/

/-- 3. At every return of `Mmap` (success, syscall failure, cancellation) whose `os.Remove` did
    not fail, the invariant holds again: no temp file, no open descriptor, and the only live
    mapping is the adopted one. -/
theorem mmap_ledger (f : Faults) (s : MState α) (h : MInv s) (hr : f.remove = false) :
    MInv (mmap f s).1 :=
  mmap_inv h hr

/-- 3. Spelled out. -/
theorem mmap_ledger_explicit (f : Faults) (s : MState α) (h : MInv s) (hr : f.remove = false) :
    (mmap f s).1.led.files = [] ∧ (mmap f s).1.led.fds = [] ∧
    (mmap f s).1.led.maps = (match (mmap f s).1.mapped with | some id => [id] | none => []) :=
  ⟨(mmap_inv h hr).files, (mmap_inv h hr).fds, (mmap_inv h hr).maps⟩

/-- 3. `Munmap` keeps the invariant and releases the mapping. -/
theorem munmap_ledger (s : MState α) (h : MInv s) :
    MInv (munmap s) ∧ (munmap s).led.maps = [] ∧ (munmap s).mapped = none :=
  ⟨munmap_inv h, munmap_maps h, munmap_mapped s⟩

/-- 3. `Reset` keeps the invariant and releases the mapping. -/
theorem reset_ledger (s : MState α) (h : MInv s) :
    MInv (reset s) ∧ (reset s).led.maps = [] ∧ (reset s).mapped = none :=
  ⟨reset_inv h, munmap_maps h, munmap_mapped s⟩

/-- 3. The finalizer keeps the invariant and releases the mapping. -/
theorem finalize_ledger (s : MState α) (h : MInv s) :
    MInv (finalize s) ∧ (finalize s).led.maps = [] ∧ (finalize s).mapped = none :=
  munmap_ledger s h

/-- 3. Resizing keeps the invariant (surviving rows stay where they are, new rows are nil). -/
theorem setDim_ledger (s : MState α) (h : MInv s) (r c : Nat) : MInv (setDim s r c) :=
  setDim_inv h r c

/-- 3. `Merge` keeps the invariant of the receiver (whatever the update), and the update — swapped
    in and reset — keeps its own invariant with its mapping released. -/
theorem merge_ledger (s u : MState α) (h : MInv s) :
    MInv (merge s u).1 ∧
    (MInv u → MInv (merge s u).2 ∧ (merge s u).2.led.maps = [] ∧ (merge s u).2.mapped = none) :=
  ⟨merge_fst_inv h u, fun hu => reset_ledger u hu⟩

/-- 3. A freshly constructed matrix in a process with a clean ledger satisfies the invariant. -/
theorem fresh_ledger (m : CSM α) (led0 : Ledger) (hc : led0.clean) : MInv (fresh m led0) :=
  fresh_inv m hc

/-- 3. The invariant holds after every history without `os.Remove` failures
    (such a failure leaves a file that no code path can remove, see `mmap_remove_fault`). -/
theorem ledger_history (s : MState α) (h : MInv s) (ops : List (Op α))
    (hops : NoRemoveFault ops) : MInv (run s ops) :=
  run_inv h ops hops

/-- 3. Once the garbage collector has finalised the matrix nothing is left: no mapping, no file,
    no descriptor. -/
theorem no_leak_after_gc (s : MState α) (h : MInv s) (ops : List (Op α))
    (hops : NoRemoveFault ops) :
    (finalize (run s ops)).led.maps = [] ∧ (finalize (run s ops)).led.files = [] ∧
    (finalize (run s ops)).led.fds = [] := by
  have hi := run_inv h ops hops
  exact ⟨munmap_maps hi, (munmap_inv hi).files, (munmap_inv hi).fds⟩

/-- 3. The one unavoidable residue: when `os.Remove` itself fails (no earlier fault, the slow path
    is taken) the call returns an error with exactly the one temp file left, no descriptor, no
    leaked mapping, and the matrix untouched. -/
theorem mmap_remove_fault (f : Faults) (s : MState α) (h : MInv s)
    (hc : alreadyClean s = false) (h0 : s.m.nnz ≠ 0)
    (h1 : f.createTemp = false) (h2 : f.truncate = false) (h3 : f.mmapSys = false)
    (h4 : f.remove = true) :
    (mmap f s).2 = .error .sys ∧
    (mmap f s).1.led.files = [s.led.next] ∧ (mmap f s).1.led.fds = [] ∧
    (mmap f s).1.led.maps = s.led.maps ∧
    (mmap f s).1.m = s.m ∧ (mmap f s).1.locs = s.locs ∧ (mmap f s).1.mapped = s.mapped := by
  have heq : mmap f s = (removeSt s, .error .sys) := by
    rw [mmap_eq]
    simp only [hc, h0, h1, h2, h3, h4, Bool.false_eq_true, if_false, if_true]
  rw [heq]
  refine ⟨rfl, ?_, ?_, ?_, rfl, rfl, rfl⟩
  · simp only [removeSt]; rw [h.files]
  · simp only [removeSt]; rw [h.fds, rmv_singleton]
  · simp only [removeSt]; exact rmv_cons_self (next_succ_not_mem h)

/-! ## 4. A failed or cancelled swap-out leaves the matrix intact and usable -/

/-- 4. Whenever `Mmap` returns an error (`CreateTemp`, `Truncate`, `syscall.Mmap`, `os.Remove`
    failure, or cancellation at any row) the matrix, its location tags and its adopted mapping
    are exactly as before. -/
theorem mmap_fail_intact (f : Faults) (s : MState α) (e : MErr) (he : (mmap f s).2 = .error e) :
    (mmap f s).1.m = s.m ∧ (mmap f s).1.locs = s.locs ∧ (mmap f s).1.mapped = s.mapped := by
  rw [mmap_eq] at he ⊢
  by_cases hc : alreadyClean s = true
  · rw [if_pos hc] at he; cases he
  · rw [if_neg hc] at he ⊢
    by_cases h0 : s.m.nnz = 0
    · rw [if_pos h0] at he; cases he
    · rw [if_neg h0] at he ⊢
      repeat' split
      all_goals first
        | exact ⟨rfl, rfl, rfl⟩
        | (exfalso; simp_all)

/-- 4. A fault-free, uncancelled `Mmap` always succeeds, from any state. -/
theorem mmap_nofault_ok (f : Faults) (s : MState α) (hf : f.sysFault = false)
    (hcan : cancelled f s = false) : (mmap f s).2 = .ok () := by
  unfold Faults.sysFault at hf
  simp only [Bool.or_eq_false_iff] at hf
  obtain ⟨⟨⟨h1, h2⟩, h3⟩, h4⟩ := hf
  rw [mmap_eq]
  simp only [h1, h2, h3, h4, hcan, Bool.false_eq_true, if_false]
  repeat' split
  all_goals rfl

/-- 4. …so after a failed or cancelled swap-out the matrix stays usable: a following fault-free
    `Mmap` succeeds and swaps out exactly the original rows. -/
theorem mmap_fail_usable (f : Faults) (s : MState α) (e : MErr) (he : (mmap f s).2 = .error e) :
    (mmap {} (mmap f s).1).2 = .ok () ∧
    (mmap {} (mmap f s).1).1.m.rows = s.m.rows ∧
    (s.locs.length = s.m.rows.length →
      inMapCount (mmap {} (mmap f s).1).1 = nonEmptyCount (mmap {} (mmap f s).1).1) := by
  have hok : (mmap {} (mmap f s).1).2 = .ok () := mmap_nofault_ok {} _ rfl rfl
  obtain ⟨e1, e2, _⟩ := mmap_fail_intact f s e he
  refine ⟨hok, ?_, fun hl => ?_⟩
  · rw [mmap_rows, mmap_rows]
  · exact (mmap_offheap_of_len {} _ (by rw [e1, e2]; exact hl) hok).1

/-! ## 5. The outcomes of `Mmap` -/

/-- 5. Already mapped and clean: `ok`, nothing changes (whatever the faults). -/
theorem mmap_outcome_clean (f : Faults) (s : MState α) (hc : alreadyClean s = true) :
    mmap f s = (s, .ok ()) :=
  mmap_of_clean hc f

/-- 5. `Mmap` returns `ok` exactly when the receiver is already mapped and clean, or has no
    stored entry, or no fault fires: no syscall fails and the context is not cancelled at any of
    the `rows.length` polls. -/
theorem mmap_ok_iff (f : Faults) (s : MState α) :
    (mmap f s).2 = .ok () ↔
      alreadyClean s = true ∨ s.m.nnz = 0 ∨
      (f.createTemp = false ∧ f.truncate = false ∧ f.mmapSys = false ∧ f.remove = false ∧
        ∀ k, f.cancelAtRow = some k → s.m.rows.length ≤ k) := by
  rw [← cancelled_eq_false_iff, mmap_eq]
  repeat' split
  all_goals simp_all

/-- 5. `Mmap` returns the context error exactly when the slow path is taken, no syscall fails and
    the context is cancelled at the poll before some row `k < rows.length`. -/
theorem mmap_ctx_iff (f : Faults) (s : MState α) :
    (mmap f s).2 = .error .ctx ↔
      alreadyClean s = false ∧ s.m.nnz ≠ 0 ∧
      f.createTemp = false ∧ f.truncate = false ∧ f.mmapSys = false ∧ f.remove = false ∧
      ∃ k, f.cancelAtRow = some k ∧ k < s.m.rows.length := by
  rw [← cancelled_iff, mmap_eq]
  repeat' split
  all_goals simp_all

/-- 5. `Mmap` returns a syscall error exactly when the slow path is taken and some syscall fails. -/
theorem mmap_sys_iff (f : Faults) (s : MState α) :
    (mmap f s).2 = .error .sys ↔
      alreadyClean s = false ∧ s.m.nnz ≠ 0 ∧
      (f.createTemp = true ∨ f.truncate = true ∨ f.mmapSys = true ∨ f.remove = true) := by
  rw [mmap_eq]
  repeat' split
  all_goals simp_all

/-- 5. On the slow path: the resulting state of each exit. -/
theorem mmap_slow_path (f : Faults) (s : MState α) (hc : alreadyClean s = false)
    (h0 : s.m.nnz ≠ 0) :
    mmap f s =
      if f.createTemp then (s, .error .sys)
      else if f.truncate then (failSt s, .error .sys)
      else if f.mmapSys then (failSt s, .error .sys)
      else if f.remove then (removeSt s, .error .sys)
      else if cancelled f s then (cancelSt s, .error .ctx)
      else (okSt s, .ok ()) := by
  rw [mmap_eq, if_neg (by simp [hc]), if_neg h0]

/-! ## 6. Re-mapping happens exactly when the matrix is dirty -/

/-- 6. A second `Mmap` without intervening modification is a no-op returning `ok` ("already
    mapped"), whatever the faults of the second call. -/
theorem mmap_twice (g f : Faults) (s : MState α) (hok : (mmap g s).2 = .ok ()) :
    mmap f (mmap g s).1 = ((mmap g s).1, .ok ()) := by
  by_cases hc : alreadyClean s = true
  · rw [mmap_of_clean hc g]; exact mmap_of_clean hc f
  · by_cases h0 : s.m.nnz = 0
    · rw [mmap_of_empty h0 g]; exact mmap_of_empty h0 f
    · rw [mmap_eq, if_neg hc, if_neg h0] at hok
      rw [mmap_eq g, if_neg hc, if_neg h0]
      repeat' split
      all_goals first
        | exact mmap_of_clean (okSt_alreadyClean s) f
        | (exfalso; simp_all)

/-- 6. In particular after a fault-free first call. -/
theorem mmap_idempotent (f : Faults) (s : MState α) :
    mmap f (mmap {} s).1 = ((mmap {} s).1, .ok ()) :=
  mmap_twice {} f s (mmap_nofault_ok {} s rfl rfl)

/-- 6. A merge that leaves some row non-empty after merging a non-empty update row into it puts
    that row on the heap: the state is dirty with respect to every mapping. -/
theorem merge_makes_dirty (s : MState α) (u : CSM α) (id i : Nat)
    (hne : (step s (.mergeFrom u)).m.rows.getD i [] ≠ []) (hu : u.rows.getD i [] ≠ []) :
    dirty (step s (.mergeFrom u)) id = true :=
  dirty_mergeFrom s u id hne hu

/-- 6. `Mmap` of a dirty mapped matrix (fault-free) copies everything into a NEW mapping, adopts
    it and releases the old one; afterwards all non-empty rows are in the new mapping. -/
theorem remap_dirty (s : MState α) (h : MInv s) (id : Nat) (hm : s.mapped = some id)
    (hd : dirty s id = true) :
    (mmap {} s).2 = .ok () ∧
    (mmap {} s).1.mapped = some (s.led.next + 1) ∧ s.led.next + 1 ≠ id ∧
    (mmap {} s).1.led.maps = [s.led.next + 1] ∧ id ∉ (mmap {} s).1.led.maps ∧
    inMapCount (mmap {} s).1 = nonEmptyCount (mmap {} s).1 := by
  have hc : alreadyClean s = false := by
    unfold alreadyClean; rw [hm]; simp [hd]
  have h0 := nnz_ne_zero_of_dirty hd
  have hlt := h.id_lt hm
  have heq : mmap {} s = (okSt s, .ok ()) := by
    rw [mmap_slow_path {} s hc h0]; rfl
  have hok : (mmap {} s).2 = .ok () := by rw [heq]
  refine ⟨hok, by rw [heq]; rfl, by omega, by rw [heq]; exact okSt_maps h, ?_,
    (mmap_offheap {} s h hok).1⟩
  rw [heq]
  show id ∉ (okSt s).led.maps
  rw [okSt_maps h]
  simp only [List.mem_singleton]
  omega

/-- 6. The whole scenario: swap out, merge an update that changes a row, swap out again. -/
theorem remap_when_dirty (s : MState α) (h : MInv s) (u : CSM α) (id i : Nat)
    (hm : (mmap {} s).1.mapped = some id)
    (hne : (step (mmap {} s).1 (.mergeFrom u)).m.rows.getD i [] ≠ [])
    (hu : u.rows.getD i [] ≠ []) :
    dirty (step (mmap {} s).1 (.mergeFrom u)) id = true ∧
    (mmap {} (step (mmap {} s).1 (.mergeFrom u))).2 = .ok () ∧
    ∃ new, new ≠ id ∧
      (mmap {} (step (mmap {} s).1 (.mergeFrom u))).1.mapped = some new ∧
      (mmap {} (step (mmap {} s).1 (.mergeFrom u))).1.led.maps = [new] ∧
      inMapCount (mmap {} (step (mmap {} s).1 (.mergeFrom u))).1 =
        nonEmptyCount (mmap {} (step (mmap {} s).1 (.mergeFrom u))).1 := by
  have h1 : MInv (mmap {} s).1 := mmap_inv h rfl
  have h2 : MInv (step (mmap {} s).1 (.mergeFrom u)) := merge_fst_inv h1 _
  have hd := dirty_mergeFrom (mmap {} s).1 u id hne hu
  have hm2 : (step (mmap {} s).1 (.mergeFrom u)).mapped = some id := hm
  obtain ⟨r1, r2, r3, r4, _, r6⟩ := remap_dirty _ h2 id hm2 hd
  exact ⟨hd, r1, _, r3, r2, r4, r6⟩

/-! ## Non-vacuity: a concrete 2×3 matrix over ℚ through a history with a cancelled swap-out,
    a swap-out, a merge, a failed swap-out, a re-swap and finalisation -/

section examples
attribute [local instance 10000] fieldScalar

/-- `[[1 0 3], [0 2 0]]` -/
def M0 : CSM ℚ := ⟨2, 3, [[⟨0, 1⟩, ⟨2, 3⟩], [⟨1, 2⟩]], []⟩
/-- an update touching row 1 only -/
def U0 : CSM ℚ := ⟨2, 3, [[], [⟨2, 5⟩]], []⟩
def s0 : MState ℚ := fresh M0 {}
def ops0 : List (Op ℚ) :=
  [.mmap { cancelAtRow := some 1 }, .mmap {}, .mergeFrom U0, .mmap { truncate := true }, .mmap {}]

/-- evaluate a concrete history -/
local macro "eval_hist" : tactic =>
  `(tactic| simp [run, runPlain, stepPlain, ops0, step, s0, fresh, M0, U0, mmap_eq, alreadyClean,
      dirty, cancelled, CSM.nnz, okSt, cancelSt, failSt, removeSt, merge, munmap, finalize,
      CSM.merge, CSM.setMajorDim, CSM.setMinorDim, mergeRows, mergeLocs, mergeSpan, rmv,
      inMapCount, nonEmptyCount])

/-- the hypotheses of `transparent_history`, `mmap_offheap`, `mmap_ledger`, `ledger_history`,
    `no_leak_after_gc`, `remap_when_dirty` hold for the start state and the history -/
example : MInv s0 ∧ HClean s0.m ∧ NoRemoveFault ops0 := by
  refine ⟨fresh_ledger M0 {} ⟨rfl, rfl, rfl⟩, fun r hr => by simp [s0, fresh, M0] at hr, ?_⟩
  intro f hf
  simp only [ops0, List.mem_cons, Op.mmap.injEq, List.not_mem_nil, or_false, reduceCtorEq,
    false_or] at hf
  rcases hf with rfl | rfl | rfl | rfl <;> rfl

/-- a swap-out cancelled at the poll before row 1: context error, nothing mapped, nothing left
    (hypothesis of `mmap_fail_intact`/`mmap_fail_usable`; right-hand side of `mmap_ctx_iff`) -/
example : (mmap { cancelAtRow := some 1 } s0).2 = .error .ctx ∧
    (mmap { cancelAtRow := some 1 } s0).1.led.files = [] ∧
    (mmap { cancelAtRow := some 1 } s0).1.led.fds = [] ∧
    (mmap { cancelAtRow := some 1 } s0).1.led.maps = [] ∧
    (mmap { cancelAtRow := some 1 } s0).1.locs = [Loc.heap, Loc.heap] := by
  eval_hist

/-- then a successful swap-out: both rows in mapping 3 (hypothesis `hok` of `mmap_offheap`,
    `mmap_twice`; hypothesis `hm` of `remap_when_dirty`) -/
example : (mmap {} (run s0 [.mmap { cancelAtRow := some 1 }])).2 = .ok () ∧
    (run s0 [.mmap { cancelAtRow := some 1 }, .mmap {}]).mapped = some 3 ∧
    (run s0 [.mmap { cancelAtRow := some 1 }, .mmap {}]).locs = [Loc.map 3, Loc.map 3] ∧
    (run s0 [.mmap { cancelAtRow := some 1 }, .mmap {}]).led.maps = [3] ∧
    inMapCount (run s0 [.mmap { cancelAtRow := some 1 }, .mmap {}]) = 2 ∧
    nonEmptyCount (run s0 [.mmap { cancelAtRow := some 1 }, .mmap {}]) = 2 := by
  eval_hist

/-- the merge puts row 1 on the heap and makes the state dirty
    (hypotheses `hne`, `hu` of `merge_makes_dirty`/`remap_when_dirty`; `hd` of `remap_dirty`) -/
example : (run s0 [.mmap { cancelAtRow := some 1 }, .mmap {}, .mergeFrom U0]).locs =
      [Loc.map 3, Loc.heap] ∧
    dirty (run s0 [.mmap { cancelAtRow := some 1 }, .mmap {}, .mergeFrom U0]) 3 = true ∧
    (run s0 [.mmap { cancelAtRow := some 1 }, .mmap {}, .mergeFrom U0]).m.rows.getD 1 [] ≠ [] ∧
    U0.rows.getD 1 [] ≠ [] := by
  eval_hist

/-- a `Truncate` failure on the dirty state: error, old mapping still adopted, nothing leaked
    (hypothesis of `mmap_fail_intact`; right-hand side of `mmap_sys_iff`) -/
example :
    (mmap { truncate := true }
      (run s0 [.mmap { cancelAtRow := some 1 }, .mmap {}, .mergeFrom U0])).2 = .error .sys ∧
    (run s0 [.mmap { cancelAtRow := some 1 }, .mmap {}, .mergeFrom U0,
      .mmap { truncate := true }]).led.maps = [3] ∧
    (run s0 [.mmap { cancelAtRow := some 1 }, .mmap {}, .mergeFrom U0,
      .mmap { truncate := true }]).led.files = [] ∧
    (run s0 [.mmap { cancelAtRow := some 1 }, .mmap {}, .mergeFrom U0,
      .mmap { truncate := true }]).led.fds = [] := by
  eval_hist

/-- the retry re-maps into the new mapping 6 and releases mapping 3 -/
example : (run s0 ops0).mapped = some 6 ∧ (run s0 ops0).led.maps = [6] ∧
    (run s0 ops0).locs = [Loc.map 6, Loc.map 6] ∧
    (run s0 ops0).led.files = [] ∧ (run s0 ops0).led.fds = [] := by
  eval_hist

/-- contents after the history = contents of the plain run = `[[1 0 3], [0 2 5]]` -/
example : (run s0 ops0).m.rows.map (·.map fun e => (e.idx, e.val)) =
      [[(0, 1), (2, 3)], [(1, 2), (2, 5)]] ∧
    (runPlain s0.m ops0).rows.map (·.map fun e => (e.idx, e.val)) =
      [[(0, 1), (2, 3)], [(1, 2), (2, 5)]] := by
  eval_hist

/-- garbage collection releases the last mapping -/
example : (finalize (run s0 ops0)).led.maps = [] ∧ (finalize (run s0 ops0)).mapped = none ∧
    (finalize (run s0 ops0)).locs = [Loc.heap, Loc.heap] := by
  eval_hist

/-- the hypotheses of `mmap_remove_fault` are satisfiable, and its conclusion in the concrete -/
example : alreadyClean s0 = false ∧ s0.m.nnz ≠ 0 ∧
    (mmap { remove := true } s0).1.led.files = [0] ∧
    (mmap { remove := true } s0).1.led.maps = [] := by
  eval_hist

/-- The requested statement "`nnz = 0 →` afterwards `mapped = none`" is FALSE (model and Go code):
    swap out, shrink to 0×0, swap out again — the invariant holds, the matrix is empty, `Mmap`
    returns `ok` through the "already mapped" exit and the stale mapping 1 stays adopted and live
    (it is released only by `Munmap`/`Reset`/finalisation). -/
theorem mmap_empty_keeps_stale_mapping :
    ∃ s : MState ℚ, MInv s ∧ s.m.nnz = 0 ∧ (mmap {} s).2 = .ok () ∧
      (mmap {} s).1.mapped = some 1 ∧ (mmap {} s).1.led.maps = [1] := by
  refine ⟨setDim (mmap {} s0).1 0 0,
    setDim_ledger _ (mmap_ledger {} s0 (fresh_ledger M0 {} ⟨rfl, rfl, rfl⟩) rfl) 0 0, ?_⟩
  have h0 : (setDim (mmap {} s0).1 0 0).m.nnz = 0 := by
    simp [setDim, CSM.setDim, CSM.setMajorDim, CSM.setMinorDim, CSM.nnz]
  rw [mmap_empty_noop {} _ h0]
  refine ⟨h0, rfl, ?_, ?_⟩ <;>
    simp [setDim, s0, fresh, M0, mmap_eq, alreadyClean, cancelled, CSM.nnz, okSt, rmv]

/-- `HClean` cannot be dropped from `transparent_history`: with a non-nil row in
    `Entries[len:cap]` (possible before the C10 repair), `Munmap` drops it while the plain run
    re-exposes it on the next `SetMajorDim`. -/
theorem transparent_history_needs_hclean :
    ∃ (s : MState ℚ) (ops : List (Op ℚ)), MInv s ∧
      (run s ops).m.nnz = 1 ∧ (runPlain s.m ops).nnz = 2 := by
  refine ⟨{ m := ⟨1, 1, [[⟨0, 1⟩]], [[⟨0, 7⟩]]⟩, locs := [Loc.map 0], mapped := some 0,
            led := { maps := [0], next := 1 } }, [.munmap, .setDim 2 1], ?_, ?_, ?_⟩
  · refine ⟨rfl, rfl, rfl, rfl, ?_, ?_⟩
    · intro p hp id _ hid
      simp only [List.zip_cons_cons, List.zip_nil_right, List.mem_singleton] at hp
      subst hp
      cases hid
      rfl
    · intro x hx
      simp only [List.nil_append, List.mem_singleton] at hx
      subst hx
      exact Nat.zero_lt_one
  · simp [run, step, munmap, setDim, CSM.setDim, CSM.setMajorDim, CSM.setMinorDim, CSM.nnz]
  · simp [runPlain, stepPlain, CSM.setDim, CSM.setMajorDim, CSM.setMinorDim, CSM.nnz]

end examples

end EtVerif.C12
