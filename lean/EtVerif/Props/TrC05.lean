/-
  TrC05 — the CURRENT SOURCE of the iteration options of pkg/basic/computeopts.go (translated by tools/go2lean
  on every run): each option constructor sets exactly its own field(s) of the options record and nothing
  else — so the effective schedule is a function of the LAST setting of each field, and the defaults
  (`checkFreq` 1, `minIterations` = `checkFreq`, `maxIterations` 0 = unlimited) are resolved by `Compute`
  itself (Props/TrC01, `compute_refines_ok`).  Property theorems only.
-/
import EtVerif.Proofs.TrOptions

namespace EtVerif.TrC05
open EtVerif EtVerif.GoSem EtVerif.Gen EtVerif.Tr Scalar

variable {α : Type} [Scalar α]

set_option linter.unusedSectionVars false

theorem withInitialTrust (o : GComputeOpts α) (t0 : GVector α) :
    (Gen.WithInitialTrust o t0).map (fun r => r.1.o) = .ok { o with t0 := some t0 } :=
  WithInitialTrust_refines o t0
theorem withResultIn (o : GComputeOpts α) (t : GVector α) :
    (Gen.WithResultIn o t).map (fun r => r.1.o) = .ok { o with t := some t } :=
  WithResultIn_refines o t
theorem withFlatTail (o : GComputeOpts α) (l : Int) :
    (Gen.WithFlatTail o l).map (fun r => r.1.o) = .ok { o with flatTailLength := l } :=
  WithFlatTail_refines o l
theorem withFlatTailNumLeaders (o : GComputeOpts α) (n : Int) :
    (Gen.WithFlatTailNumLeaders o n).map (fun r => r.1.o) = .ok { o with numLeaders := n } :=
  WithFlatTailNumLeaders_refines o n
theorem withFlatTailStats (o : GComputeOpts α) (s : GFlatTailStats α) :
    (Gen.WithFlatTailStats o s).map (fun r => r.1.o) = .ok { o with flatTailStats := some s } :=
  WithFlatTailStats_refines o s
/-- `WithMaxIterations n` sets the hard cap and nothing else. -/
theorem withMaxIterations (o : GComputeOpts α) (n : Int) :
    (Gen.WithMaxIterations o n).map (fun r => r.1.o) = .ok { o with maxIterations := some n } :=
  WithMaxIterations_refines o n
/-- `WithMinIterations n` sets the first check and nothing else. -/
theorem withMinIterations (o : GComputeOpts α) (n : Int) :
    (Gen.WithMinIterations o n).map (fun r => r.1.o) = .ok { o with minIterations := some n } :=
  WithMinIterations_refines o n
/-- `WithIterations n` sets both limits to `n`. -/
theorem withIterations (o : GComputeOpts α) (n : Int) :
    (Gen.WithIterations o n).map (fun r => r.1.o) = .ok { o with maxIterations := some n, minIterations := some n } :=
  WithIterations_refines o n
/-- `WithCheckFreq n` sets the check period and nothing else (in particular not the first check). -/
theorem withCheckFreq (o : GComputeOpts α) (n : Int) :
    (Gen.WithCheckFreq o n).map (fun r => r.1.o) = .ok { o with checkFreq := some n } :=
  WithCheckFreq_refines o n

end EtVerif.TrC05
