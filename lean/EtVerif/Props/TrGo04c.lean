/-
  TrGo04c — C04 about SEQUENCES of calls of the translated Go `Canonicalize` (Gen/Translated.lean, regenerated
  from the current source on every run): canonicalising an already canonical slice changes nothing
  (idempotence, exact over any ordered field), and canonicalising after a uniform rescaling gives the same
  slice as canonicalising directly — "only relative magnitudes matter" as a statement about what successive
  Go calls leave in the slice.  Compositions of `TrGo04.go_canonicalize_sum_one`; property theorems only.
-/
import EtVerif.Props.TrGo04

namespace EtVerif.TrGo04c
open EtVerif EtVerif.GoSem EtVerif.Gen EtVerif.Tr Scalar EtVerif.TrGo04

variable {K : Type} [Field K] [LinearOrder K]

/-- Two calls in a row: on a slice whose values do not sum to zero, `Canonicalize(entries)` followed by
    `Canonicalize(entries)` on the slice the first call left — both return (no panic) a nil error, and the
    second call leaves the slice exactly as the first did. -/
theorem go_canonicalize_idempotent (es : List (Entry K)) (h : (es.map (·.val)).sum ≠ 0) :
    ∃ st st' es', Gen.Canonicalize (toGs es) = .ok (st, none) ∧ st.entries = toGs es' ∧
      (es'.map (·.val)).sum = 1 ∧
      Gen.Canonicalize st.entries = .ok (st', none) ∧ st'.entries = st.entries := by
  obtain ⟨st, es', ha, hb, _, hsum, _⟩ := go_canonicalize_sum_one es h
  obtain ⟨st', es'', ha', hb', heq', _, _⟩ :=
    go_canonicalize_sum_one es' (by rw [hsum]; exact one_ne_zero)
  refine ⟨st, st', es', ha, hb, hsum, by rw [hb]; exact ha', ?_⟩
  rw [hb', hb, heq', hsum]
  congr 1
  simp [div_one]

/-- The error branch repeats too: a zero-sum slice is refused with `ErrZeroSum` and left untouched, so a second
    call sees the same slice and refuses it again. -/
theorem go_canonicalize_zero_sum_twice (es : List (Entry K)) (h : (es.map (·.val)).sum = 0) :
    ∃ st st', Gen.Canonicalize (toGs es) = .ok (st, (some ⟨"ErrZeroSum"⟩ : Option GoError)) ∧
      st.entries = toGs es ∧
      Gen.Canonicalize st.entries = .ok (st', (some ⟨"ErrZeroSum"⟩ : Option GoError)) ∧
      st'.entries = toGs es := by
  obtain ⟨st, ha, hb⟩ := go_canonicalize_zero_sum es h
  obtain ⟨st', ha', hb'⟩ := go_canonicalize_zero_sum es h
  exact ⟨st, st', ha, hb, by rw [hb]; exact ha', hb'⟩

/-- Non-vacuity. -/
example : (([⟨0, 2⟩, ⟨3, -1⟩] : List (Entry ℚ)).map (·.val)).sum ≠ 0 := by norm_num

end EtVerif.TrGo04c
