/-
  TrGoSrc — properties C05 (iteration control), C18 (flat-tail statistics) and C01 (distance from the fixed
  point) stated about the value returned by the CURRENT SOURCE of `basic.Compute` TOGETHER WITH THE CONVERGENCE
  CHECKER TRANSLATED FROM THE SOURCE (`Gen.Compute_src` of Gen/Translated.lean, the second universe of
  tools/go2lean: `math.Sqrt`, `math.IsNaN`, `math.IsInf` are the uninterpreted parameters `sqrtO`, `nanO`,
  `infO`).  This file is the port of the `go_compute_*` theorems of Props/TrGo05 (which are about `Gen.Compute`,
  the translation that calls a hand-written extern checker) to `Gen.Compute_src`: same names with the suffix
  `_src`, same conclusions with `toGStatsSrc sqrtO` in the place of `toGStats` (four conclusions are EXTENDED by
  conjuncts about the fields of the Go statistics record: `go_compute_src_stats`, `_stats_fields`,
  `_criteria_stop` — `DeltaNorm` is `sqrtO` of the model's squared delta —, `_withIterations` — the initial
  statistics also in the `toGStats` form).  No theorem had to be weakened (no `_partial`).  It does not import
  Props/TrGo05 (the vocabulary below is repeated).

  Every theorem is a composition: the refinement theorem (Props/TrSrc: `compute_src_refines_ok_partial`,
  `compute_src_refines_err_partial`, `compute_src_refuses_validation`) gives the existence of the `.ok` result of
  the translated function (no panic, termination within the fuel) and identifies it with the model's value
  through the bridge maps `toGV`, `toGM`, `toGOpts`, `toGStatsSrc sqrtO`; the model-level property theorem
  (Props/C05, C05b, C18, C01b) then speaks about that value.

  Hypotheses of the refinement that every `Compute_src` theorem carries (see Props/TrSrc):
  * `hO`     — `OracleOK sqrtO nanO infO e` (Proofs/TrChecker): on compensated sums of squares `x`,
               `(nanO (sqrtO x) || infO (sqrtO x)) = nonFinite x` and `le (sqrtO x) e = sqrtLe x e`, for the `e`
               given to `Compute`.  In the ℝ section it is a hypothesis about the `e` of the statement.  The two
               validation theorems (`go_compute_src_invalid_rejected`, `go_compute_src_invalid_error`) do not
               need it: the Go code refuses before the checker is consulted;
  * `hres`   — the model's `resultDim` is the dimension of the vector given to `WithResultIn`;
  * `hcols`  — column indices in range (else Go's `Transpose` panics);
  * `hap`    — `a·p` stores an entry (nil-vs-empty slices are not modelled);
  * `hfuel`  — the fuel also bounds the inner merge loops INCLUDING the `SubVec` loop inside the translated
               `ConvergenceChecker.Update`: `n + |p| + max (n + |p|) |t0| ≤ fuel` (stronger than the
               `n + |p| ≤ fuel` of Props/TrGo05; `t0` is the start vector, `p` when none is given — in the
               theorems about the default options it reads `n + |p| + (n + |p|) ≤ fuel`);
    `hfuel63` — `fuel < 2^63 − 1` (`math.MaxInt`).

  What the returned Go state `st` exposes besides the returned pair `(vector, error)`: `st.flatTailStats`, the
  statistics object the Go code fills (`WithFlatTailStats`).  It is `toGStatsSrc sqrtO S` for the model's
  statistics `S` (Proofs/TrComputeSrc): `Length`, `Threshold`, `Ranking` are the model's (`toGStatsSrc_Length`,
  `_Threshold`, `_Ranking` below) and — the difference to Props/TrGo05, where `DeltaNorm` carries the model's
  SQUARED delta — `DeltaNorm` is `sqrtO` of the model's squared delta once a ranking has been recorded
  (`toGStatsSrc_DeltaNorm`), the initial `1` before (`toGStatsSrc_init`).

  NOT ported: the `go_flatTail_*` theorems of Props/TrGo05 §5 (about the translated flat-tail checker alone,
  which is the same function in both universes).  NOT transported, as in Props/TrGo05:
  * Props/C05a (dense analysis of `Dense.F` on `Fin n → ℝ`): no Go function — it enters only through C05b;
  * the loop-level theorems of C05/C18 about `computeLoop` from an ARBITRARY start state: the refinement is
    for `Compute`, which always starts the loop in `initState`;
  * `C05.check_delta` (the delta tested at a check is the change since the previous check) is a statement about
    the model's `dsqAt` alone; on the Go side it is visible through `DeltaNorm` of the statistics object
    (`go_compute_src_stats_fields`: `sqrtO` of the delta at the head of the final run);
  * the model's `r.iters`, `r.checks`, `r.endedBy` are not part of the Go return value: they appear as the
    model run `r` that the returned vector / statistics are functions of.
-/
import EtVerif.Props.TrSrc
import EtVerif.Props.TrC01
import EtVerif.Props.TrC18
import EtVerif.Props.C05
import EtVerif.Props.C05b
import EtVerif.Props.C18
import EtVerif.Props.C01b

namespace EtVerif.TrGoSrc
open EtVerif EtVerif.GoSem EtVerif.Gen EtVerif.Tr Scalar

/-! ## vocabulary: the schedule and the verdicts of `compute c p a e o` -/

section vocabulary
variable {α : Type} [Scalar α]

/-- first scheduled check: `minIterations`, else `checkFreq`, else 1 -/
abbrev minIOf (o : ComputeOpts α) : Nat := (o.minIterations.getD (o.checkFreq.getD 1)).toNat
/-- distance between scheduled checks: `checkFreq`, else 1 -/
abbrev freqOf (o : ComputeOpts α) : Nat := (o.checkFreq.getD 1).toNat
/-- iteration limit: `maxIterations`, unset or 0 meaning unlimited -/
abbrev maxIOf (o : ComputeOpts α) : Option Nat :=
  if o.maxIterations.getD 0 = 0 then none else some (o.maxIterations.getD 0).toNat
/-- number of ranked peers: `numLeaders`, 0 meaning all `n` -/
abbrev nlOf (c : CSM α) (o : ComputeOpts α) : Nat := if o.numLeaders = 0 then c.major else o.numLeaders
/-- the `k`-th pure power iterate `t ↦ (1-a)·Cᵀt + a·p` of the start vector (`WithInitialTrust`, else `p`) -/
abbrev iterOf (c : CSM α) (p : Vec α) (a : α) (o : ComputeOpts α) (k : Nat) : List (Entry α) :=
  iterate c.transpose.rows (Vec.scale a p).entries (sub one a) k (o.t0.getD p).entries
/-- a scheduled check at iteration `k` would end the loop -/
abbrev stopAtOf (c : CSM α) (p : Vec α) (a e : α) (o : ComputeOpts α) (k : Nat) : Bool :=
  stopAt c.transpose.rows (Vec.scale a p).entries (sub one a) e (minIOf o) (freqOf o) o.flatTail (nlOf c o)
    (o.t0.getD p).entries k
/-- the delta of a check at iteration `k` is not finite -/
abbrev nonFiniteAtOf (c : CSM α) (p : Vec α) (a : α) (o : ComputeOpts α) (k : Nat) : Bool :=
  nonFiniteAt c.transpose.rows (Vec.scale a p).entries (sub one a) (minIOf o) (freqOf o) (o.t0.getD p).entries k
/-- `Converged()` at a check at iteration `k` -/
abbrev convergedAtOf (c : CSM α) (p : Vec α) (a e : α) (o : ComputeOpts α) (k : Nat) : Bool :=
  convergedAt c.transpose.rows (Vec.scale a p).entries (sub one a) e (minIOf o) (freqOf o)
    (o.t0.getD p).entries k
/-- `Reached()` at a check at iteration `k` -/
abbrev flatAtOf (c : CSM α) (p : Vec α) (a : α) (o : ComputeOpts α) (k : Nat) : Bool :=
  flatAt c.transpose.rows (Vec.scale a p).entries (sub one a) (minIOf o) (freqOf o) o.flatTail (nlOf c o)
    (o.t0.getD p).entries k
/-- the observation `(ranking of the k-th iterate, squared delta at check k)` fed to the flat-tail checker -/
abbrev obsAtOf (c : CSM α) (p : Vec α) (a : α) (o : ComputeOpts α) (k : Nat) : List Nat × α :=
  obsAt c.transpose.rows (Vec.scale a p).entries (sub one a) (minIOf o) (freqOf o) (nlOf c o)
    (o.t0.getD p).entries k

end vocabulary

/-! ## 0. the refinement in the form used below -/

section scalar
variable {α : Type} [Scalar α]

set_option linter.unusedSectionVars false

/-- the fields of the statistics record of the source universe: length, threshold and ranking are the model's -/
theorem toGStatsSrc_Length (sqrtO : α → α) (s : FlatTailStats α) :
    (toGStatsSrc sqrtO s).Length = (s.length : Int) := rfl

theorem toGStatsSrc_Threshold (sqrtO : α → α) (s : FlatTailStats α) :
    (toGStatsSrc sqrtO s).Threshold = (s.threshold : Int) := rfl

theorem toGStatsSrc_Ranking (sqrtO : α → α) (s : FlatTailStats α) :
    (toGStatsSrc sqrtO s).Ranking = (s.ranking.getD []).map (fun (i : Nat) => (i : Int)) := rfl

/-- … and `DeltaNorm` is `sqrtO` of the model's squared delta once a ranking has been recorded -/
theorem toGStatsSrc_DeltaNorm (sqrtO : α → α) (s : FlatTailStats α) (rk : List Nat) (h : s.ranking = some rk) :
    (toGStatsSrc sqrtO s).DeltaNorm = sqrtO s.deltaSq := by
  simp only [toGStatsSrc, srcStats, toGStats, h, Option.isSome_some, if_true]

/-- before any check the source universe holds the model's initial statistics `(0, 1, 1, nil)` -/
theorem toGStatsSrc_init (sqrtO : α → α) :
    toGStatsSrc sqrtO (FlatTailStats.init : FlatTailStats α) = toGStats (FlatTailStats.init : FlatTailStats α) :=
  rfl

/-- Whenever the model run `r` ends properly, the translated Go `Compute` (with the checker translated from the
    source) returns (no panic, within the fuel) the model's vector with a nil error, and has filled the
    statistics object with the model's statistics in their source form (the delta under the root). -/
theorem go_compute_src_returns (capO : Nat → Int) (fuel : Nat) (sqrtO : α → α) (nanO infO : α → Bool)
    (c : CSM α) (p : Vec α) (a e : α) (hO : OracleOK sqrtO nanO infO e)
    (o : ComputeOpts α) (tRes : Option (Vec α)) (gs : Option (GFlatTailStats α))
    (hres : o.resultDim = tRes.map (·.dim)) (hcols : c.colsInRange = true)
    (hap : (Vec.scale a p).entries ≠ [])
    (r : ComputeResult α) (hr : compute fuel c p a e o = .ok r) (hend : r.endedBy ≠ .outOfFuel)
    (hfuel : c.major + p.entries.length + max (c.major + p.entries.length) (o.t0.getD p).entries.length ≤ fuel)
    (hfuel63 : fuel < 9223372036854775807) :
    ∃ st, Gen.Compute_src capO fuel sqrtO nanO infO (toGM c) (toGV p) a e (toGOpts o tRes gs) =
        .ok (st, (toGV r.t, none)) ∧
      st.flatTailStats = toGStatsSrc sqrtO r.stats := by
  obtain ⟨x, hx, hout⟩ := map_eq_ok
    (TrSrc.compute_src_refines_ok_partial capO fuel sqrtO nanO infO c p a e hO o tRes gs hres hcols hap r hr hend
      hfuel hfuel63)
  have h1 := congrArg Prod.fst hout
  have h2 := congrArg Prod.snd hout
  simp only at h1 h2
  exact ⟨x.1, by rw [hx, ← h1], h2⟩

/-- a failing validation of the model, in the form `TrSrc.compute_src_refuses_validation` expects -/
theorem refusal_of_not_valid (c : CSM α) (p : Vec α) (a e : α) (o : ComputeOpts α)
    (h : ¬ ValidInput c p a e o) :
    (∃ er, c.dim = .error er) ∨ ∃ n, c.dim = .ok n ∧ Refusal p a e o n := by
  obtain ⟨err, herr⟩ := compute_error_of_not_valid c p a e o h
  by_cases h1 : c.major = c.minor
  · have hd : c.dim = .ok c.major := by simp [CSM.dim, h1]
    rcases Tr.compute_err_inv hd (herr 0) with h' | h'
    · exact .inr ⟨_, hd, h'⟩
    · simp [modelLoop, computeLoop] at h'
  · exact .inl ⟨.dimMismatch, by simp [CSM.dim, h1]⟩

/-! ## 1. C05 — the returned vector is the pure iterate; the iteration count -/

/-- **C05.compute_spec on the Go code.**  Whenever the model run ends properly, the Go `Compute` returns
    (nil error) the `r.iters`-th pure power iterate of the start vector (`WithInitialTrust`, else `p`), of
    dimension `n`; all validations had passed; `r.iters ≤ maxIterations` when a limit is set;
    `r.iters ≤ fuel`. -/
theorem go_compute_src_returns_iterate (capO : Nat → Int) (fuel : Nat) (sqrtO : α → α) (nanO infO : α → Bool)
    (c : CSM α) (p : Vec α) (a e : α) (hO : OracleOK sqrtO nanO infO e)
    (o : ComputeOpts α) (tRes : Option (Vec α)) (gs : Option (GFlatTailStats α))
    (hres : o.resultDim = tRes.map (·.dim)) (hcols : c.colsInRange = true)
    (hap : (Vec.scale a p).entries ≠ [])
    (r : ComputeResult α) (hr : compute fuel c p a e o = .ok r) (hend : r.endedBy ≠ .outOfFuel)
    (hfuel : c.major + p.entries.length + max (c.major + p.entries.length) (o.t0.getD p).entries.length ≤ fuel)
    (hfuel63 : fuel < 9223372036854775807) :
    ∃ st, Gen.Compute_src capO fuel sqrtO nanO infO (toGM c) (toGV p) a e (toGOpts o tRes gs) =
        .ok (st, (toGV ⟨c.major, iterOf c p a o r.iters⟩, none)) ∧
      ValidInput c p a e o ∧
      (o.maxIterations.getD 0 ≠ 0 → (r.iters : Int) ≤ o.maxIterations.getD 0) ∧
      r.iters ≤ fuel := by
  obtain ⟨st, hst, _⟩ :=
    go_compute_src_returns capO fuel sqrtO nanO infO c p a e hO o tRes gs hres hcols hap r hr hend hfuel hfuel63
  obtain ⟨hv, ht, hmax, hfu, _⟩ := C05.compute_spec fuel c p a e o r hr
  exact ⟨st, by rw [hst, ht], hv, hmax, hfu⟩

/-- **C05.stopIter_spec / checks_schedule on the Go code.**  The vector the Go `Compute` returns is the
    `r.iters`-th iterate, where the iteration count of the run is characterised by: never more than the limit;
    no scheduled check before it ended the loop; the checks performed are exactly the scheduled ones
    (`minI, minI + freq, …`; inclusive of `r.iters` iff a check ended the loop); the run ended by the limit
    (then exactly `maxIterations` iterations) or by the criteria (then at a scheduled check strictly before the
    limit, with a finite delta, converged, flat tail reached). -/
theorem go_compute_src_stop_spec (capO : Nat → Int) (fuel : Nat) (sqrtO : α → α) (nanO infO : α → Bool)
    (c : CSM α) (p : Vec α) (a e : α) (hO : OracleOK sqrtO nanO infO e)
    (o : ComputeOpts α) (tRes : Option (Vec α)) (gs : Option (GFlatTailStats α))
    (hres : o.resultDim = tRes.map (·.dim)) (hcols : c.colsInRange = true)
    (hap : (Vec.scale a p).entries ≠ [])
    (r : ComputeResult α) (hr : compute fuel c p a e o = .ok r) (hend : r.endedBy ≠ .outOfFuel)
    (hfuel : c.major + p.entries.length + max (c.major + p.entries.length) (o.t0.getD p).entries.length ≤ fuel)
    (hfuel63 : fuel < 9223372036854775807) :
    ∃ st, Gen.Compute_src capO fuel sqrtO nanO infO (toGM c) (toGV p) a e (toGOpts o tRes gs) =
        .ok (st, (toGV ⟨c.major, iterOf c p a o r.iters⟩, none)) ∧
      (∀ m, maxIOf o = some m → r.iters ≤ m) ∧
      (∀ k, k < r.iters → stopAtOf c p a e o k = false) ∧
      r.checks = (List.range (if r.endedBy = .criteria then r.iters + 1 else r.iters)).filter
        (isCheck (minIOf o) (freqOf o)) ∧
      (∀ k, k ∈ r.checks ↔
        (k < r.iters ∨ (k = r.iters ∧ r.endedBy = .criteria)) ∧ ∃ i, k = minIOf o + i * freqOf o) ∧
      (r.endedBy = .maxIterations ∨ r.endedBy = .criteria) ∧
      (r.endedBy = .maxIterations → maxIOf o = some r.iters) ∧
      (r.endedBy = .criteria →
        isCheck (minIOf o) (freqOf o) r.iters = true ∧ (∀ m, maxIOf o = some m → r.iters < m) ∧
        nonFiniteAtOf c p a o r.iters = false ∧ convergedAtOf c p a e o r.iters = true ∧
        flatAtOf c p a o r.iters = true) := by
  obtain ⟨st, hst, _⟩ :=
    go_compute_src_returns capO fuel sqrtO nanO infO c p a e hO o tRes gs hres hcols hap r hr hend hfuel hfuel63
  obtain ⟨_, ht, _, _, s, hl, hit, _, hch⟩ := C05.compute_spec fuel c p a e o r hr
  have hnf : r.endedBy ≠ .nonFinite := (_root_.EtVerif.compute_ok_inv fuel c p a e o r hr).2.1
  have hl' : computeLoop c.transpose.rows (Vec.scale a p).entries (sub one a) e (minIOf o) (freqOf o)
      (maxIOf o) o.flatTail (nlOf c o) fuel (initState (o.t0.getD p).entries) = (s, r.endedBy) := hl
  obtain ⟨h1, _, h3, h4, h5, h6, _, _⟩ := C05.stopIter_spec _ _ _ _ _ _ _ _ _ fuel _ s r.endedBy hl'
  have hsched := C05.checks_schedule _ _ _ _ _ _ _ _ _ fuel _ s r.endedBy hl'
  have hor : (r.endedBy = .criteria ∨ r.endedBy = .nonFinite) ↔ r.endedBy = .criteria := by
    simp [hnf]
  refine ⟨st, by rw [hst, ht], ?_, ?_, ?_, ?_, ?_, ?_, ?_⟩
  · intro m hm; rw [hit]; exact h1 m hm
  · intro k hk; rw [hit] at hk; exact h3 k hk
  · rw [hch, h4, List.reverse_reverse, hit]
    simp only [hor]
  · intro k
    rw [hch, List.mem_reverse, hsched k, hit]
    simp only [hor]
  · cases hb : r.endedBy with
    | criteria => exact .inr rfl
    | maxIterations => exact .inl rfl
    | outOfFuel => exact absurd hb hend
    | nonFinite => exact absurd hb hnf
  · intro hb; rw [hit]; exact h5 hb
  · intro hb
    obtain ⟨c1, _, c3, c4, c5, c6⟩ := h6 hb
    rw [hit]
    exact ⟨c1, c3, c4, c5, c6⟩

/-- **C05.stopIter_first on the Go code.**  If all validations pass, `K < fuel` is the FIRST iteration at
    which the iteration limit is reached or a scheduled check ends the loop, and (unless it is the limit that
    is hit) the delta of that check is finite, then the Go `Compute` returns (nil error) exactly the `K`-th
    iterate; the model run has `K` iterations and is ended by the limit iff the limit is what was hit (a check
    scheduled exactly at `maxIterations` is not performed). -/
theorem go_compute_src_stop_first (capO : Nat → Int) (fuel : Nat) (sqrtO : α → α) (nanO infO : α → Bool)
    (c : CSM α) (p : Vec α) (a e : α) (hO : OracleOK sqrtO nanO infO e)
    (o : ComputeOpts α) (tRes : Option (Vec α)) (gs : Option (GFlatTailStats α))
    (hres : o.resultDim = tRes.map (·.dim)) (hcols : c.colsInRange = true)
    (hap : (Vec.scale a p).entries ≠ [])
    (hv : ValidInput c p a e o) (K : Nat) (hK : K < fuel)
    (hbefore : ∀ k, k < K → maxHit (maxIOf o) k = false ∧ stopAtOf c p a e o k = false)
    (hat : maxHit (maxIOf o) K = true ∨ stopAtOf c p a e o K = true)
    (hfin : maxHit (maxIOf o) K = true ∨ nonFiniteAtOf c p a o K = false)
    (hfuel : c.major + p.entries.length + max (c.major + p.entries.length) (o.t0.getD p).entries.length ≤ fuel)
    (hfuel63 : fuel < 9223372036854775807) :
    ∃ st r, compute fuel c p a e o = .ok r ∧ r.iters = K ∧
      (r.endedBy = .maxIterations ↔ maxHit (maxIOf o) K = true) ∧
      (r.endedBy = .maxIterations ∨ r.endedBy = .criteria) ∧
      Gen.Compute_src capO fuel sqrtO nanO infO (toGM c) (toGV p) a e (toGOpts o tRes gs) =
        .ok (st, (toGV ⟨c.major, iterOf c p a o K⟩, none)) ∧
      st.flatTailStats = toGStatsSrc sqrtO r.stats := by
  cases hl : loopOf fuel c p a e o with
  | mk s by_ =>
    have hl' : computeLoop c.transpose.rows (Vec.scale a p).entries (sub one a) e (minIOf o) (freqOf o)
        (maxIOf o) o.flatTail (nlOf c o) fuel (initState (o.t0.getD p).entries) = (s, by_) := hl
    obtain ⟨h1, h2, h3⟩ := C05.stopIter_first _ _ _ _ _ _ _ _ _ fuel _ K hK hbefore hat s by_ hl'
    have hit := C05.loop_returns_iterate_init _ _ _ _ _ _ _ _ _ fuel _ s by_ hl'
    have hnf : by_ ≠ .nonFinite := by
      rintro rfl
      obtain ⟨_, _, _, _, _, _, h7, _⟩ := C05.stopIter_spec _ _ _ _ _ _ _ _ _ fuel _ s _ hl'
      obtain ⟨_, _, _, hnf⟩ := h7 rfl
      rw [h1] at hnf
      rcases hfin with hm | hf
      · have := h3.mpr hm; cases this
      · exact Bool.false_ne_true (hf.symm.trans hnf)
    have hr := compute_ok_of_loop fuel c p a e o hv s by_ hl hnf
    obtain ⟨st, hst, hstats⟩ :=
      go_compute_src_returns capO fuel sqrtO nanO infO c p a e hO o tRes gs hres hcols hap _ hr h2
      hfuel hfuel63
    refine ⟨st, _, hr, h1, h3, ?_, ?_, hstats⟩
    · cases by_ with
      | criteria => exact .inr rfl
      | maxIterations => exact .inl rfl
      | outOfFuel => exact absurd rfl h2
      | nonFinite => exact absurd rfl hnf
    · rw [hst]
      simp only [hit, h1]

/-- **`WithIterations n`** (`minIterations = maxIterations = n`) on the Go code: the Go `Compute` returns
    (nil error) exactly the `n`-th iterate of the start vector, and — no check having been performed — leaves
    the initial statistics `(length 0, threshold 1, delta 1, ranking nil)` in the statistics object (the source
    form of the initial statistics is the initial statistics: no root has been taken). -/
theorem go_compute_src_withIterations (capO : Nat → Int) (fuel n : Nat) (sqrtO : α → α) (nanO infO : α → Bool)
    (c : CSM α) (p : Vec α) (a e : α) (hO : OracleOK sqrtO nanO infO e)
    (o : ComputeOpts α) (tRes : Option (Vec α)) (gs : Option (GFlatTailStats α))
    (hres : o.resultDim = tRes.map (·.dim)) (hcols : c.colsInRange = true)
    (hap : (Vec.scale a p).entries ≠ [])
    (hmin : o.minIterations = some (n : Int)) (hmax : o.maxIterations = some (n : Int))
    (hv : ValidInput c p a e o) (hn : n < fuel)
    (hfuel : c.major + p.entries.length + max (c.major + p.entries.length) (o.t0.getD p).entries.length ≤ fuel)
    (hfuel63 : fuel < 9223372036854775807) :
    ∃ st, Gen.Compute_src capO fuel sqrtO nanO infO (toGM c) (toGV p) a e (toGOpts o tRes gs) =
        .ok (st, (toGV ⟨c.major, iterOf c p a o n⟩, none)) ∧
      st.flatTailStats = toGStatsSrc sqrtO (FlatTailStats.init : FlatTailStats α) ∧
      st.flatTailStats = toGStats (FlatTailStats.init : FlatTailStats α) := by
  obtain ⟨r, hr, _, hby, hch, ht⟩ := C05.compute_withIterations fuel n c p a e o hmin hmax hv hn
  have hend : r.endedBy ≠ .outOfFuel := by rw [hby]; decide
  obtain ⟨st, hst, hstats⟩ :=
    go_compute_src_returns capO fuel sqrtO nanO infO c p a e hO o tRes gs hres hcols hap r hr hend hfuel hfuel63
  have hs := (C18.compute_stats fuel c p a e o r hr).1
  rw [hch] at hs
  have hinit : st.flatTailStats = toGStatsSrc sqrtO (FlatTailStats.init : FlatTailStats α) := by
    rw [hstats, hs]
    rfl
  exact ⟨st, by rw [hst, ht], hinit, hinit.trans (toGStatsSrc_init sqrtO)⟩

/-- **C05.compute_ok on the Go code**: all validations pass and the model's loop ends in state `s` by the
    criteria or the limit — the Go `Compute` returns the loop's vector (dimension `n`), a nil error, and the
    loop's statistics. -/
theorem go_compute_src_ok_of_loop (capO : Nat → Int) (fuel : Nat) (sqrtO : α → α) (nanO infO : α → Bool)
    (c : CSM α) (p : Vec α) (a e : α) (hO : OracleOK sqrtO nanO infO e)
    (o : ComputeOpts α) (tRes : Option (Vec α)) (gs : Option (GFlatTailStats α))
    (hres : o.resultDim = tRes.map (·.dim)) (hcols : c.colsInRange = true)
    (hap : (Vec.scale a p).entries ≠ [])
    (hv : ValidInput c p a e o) (s : LoopState α) (by_ : EndedBy)
    (hl : loopOf fuel c p a e o = (s, by_)) (hnf : by_ ≠ .nonFinite) (hof : by_ ≠ .outOfFuel)
    (hfuel : c.major + p.entries.length + max (c.major + p.entries.length) (o.t0.getD p).entries.length ≤ fuel)
    (hfuel63 : fuel < 9223372036854775807) :
    ∃ st, Gen.Compute_src capO fuel sqrtO nanO infO (toGM c) (toGV p) a e (toGOpts o tRes gs) =
        .ok (st, (toGV ⟨c.major, s.t1⟩, none)) ∧
      st.flatTailStats = toGStatsSrc sqrtO s.stats :=
  go_compute_src_returns capO fuel sqrtO nanO infO c p a e hO o tRes gs hres hcols hap _
    (compute_ok_of_loop fuel c p a e o hv s by_ hl hnf) hof hfuel hfuel63

/-- **Fuel independence (C05.compute_fuel_mono) on the Go code**: a Go run whose model run ended properly
    returns the same vector, nil error and statistics for every larger fuel (below `2^63 − 1`): the result
    does not depend on the bound put on the loops; with `maxIterations = 0` this expresses "unlimited". -/
theorem go_compute_src_fuel_independent (capO : Nat → Int) (fuel fuel' : Nat) (sqrtO : α → α) (nanO infO : α → Bool)
    (c : CSM α) (p : Vec α) (a e : α) (hO : OracleOK sqrtO nanO infO e)
    (o : ComputeOpts α) (tRes : Option (Vec α)) (gs : Option (GFlatTailStats α))
    (hres : o.resultDim = tRes.map (·.dim)) (hcols : c.colsInRange = true)
    (hap : (Vec.scale a p).entries ≠ [])
    (r : ComputeResult α) (hr : compute fuel c p a e o = .ok r) (hend : r.endedBy ≠ .outOfFuel)
    (hfuel : c.major + p.entries.length + max (c.major + p.entries.length) (o.t0.getD p).entries.length ≤ fuel)
    (hle : fuel ≤ fuel')
    (hfuel63 : fuel' < 9223372036854775807) :
    ∃ st st',
      Gen.Compute_src capO fuel sqrtO nanO infO (toGM c) (toGV p) a e (toGOpts o tRes gs) =
          .ok (st, (toGV r.t, none)) ∧
      Gen.Compute_src capO fuel' sqrtO nanO infO (toGM c) (toGV p) a e (toGOpts o tRes gs) =
          .ok (st', (toGV r.t, none)) ∧
      st.flatTailStats = toGStatsSrc sqrtO r.stats ∧ st'.flatTailStats = toGStatsSrc sqrtO r.stats := by
  have hr' : compute fuel' c p a e o = .ok r :=
    C05.compute_fuel_mono fuel fuel' hle c p a e o _ hr (fun r' h => by cases h; exact hend)
  obtain ⟨st, hst, hs⟩ :=
    go_compute_src_returns capO fuel sqrtO nanO infO c p a e hO o tRes gs hres hcols hap r hr hend hfuel
    (by omega)
  obtain ⟨st', hst', hs'⟩ :=
    go_compute_src_returns capO fuel' sqrtO nanO infO c p a e hO o tRes gs hres hcols hap r hr' hend
    (by omega) hfuel63
  exact ⟨st, st', hst, hst', hs, hs'⟩

/-! ### validation rejects before any iteration -/

/-- **C05.invalid_rejected on the Go code.**  Each out-of-range parameter makes the Go `Compute` return
    `nil, err` — for EVERY fuel, in particular fuel 0: before any iteration (no hypothesis on `a·p`, on the
    fuel or on the oracles `sqrtO`, `nanO`, `infO` is needed). -/
theorem go_compute_src_invalid_rejected (capO : Nat → Int) (fuel : Nat) (sqrtO : α → α) (nanO infO : α → Bool)
    (c : CSM α) (p : Vec α) (a e : α)
    (o : ComputeOpts α) (tRes : Option (Vec α)) (gs : Option (GFlatTailStats α))
    (hres : o.resultDim = tRes.map (·.dim)) (hcols : c.colsInRange = true)
    (h : c.major ≠ c.minor ∨ c.major = 0 ∨ p.dim ≠ c.major ∨
      (∃ t0, o.t0 = some t0 ∧ t0.dim ≠ c.major) ∨
      (∃ d, o.resultDim = some d ∧ d ≠ c.major) ∨
      lt a zero = true ∨ lt one a = true ∨ le e zero = true ∨
      o.checkFreq.getD 1 < 1 ∨ o.maxIterations.getD 0 < 0 ∨
      o.minIterations.getD (o.checkFreq.getD 1) ≤ 0) :
    ∃ st msg, Gen.Compute_src capO fuel sqrtO nanO infO (toGM c) (toGV p) a e (toGOpts o tRes gs) =
      .ok (st, (GVector.zero, some msg)) := by
  apply TrSrc.compute_src_refuses_validation capO fuel sqrtO nanO infO c p a e o tRes gs hres hcols
  apply refusal_of_not_valid
  rintro ⟨v1, v2, v3, v4, v5, v6, v7, v8, v9, v10, v11⟩
  rcases h with h | h | h | ⟨t0, h, h'⟩ | ⟨d, h, h'⟩ | h | h | h | h | h | h
  · exact h v1
  · exact v2 h
  · exact h v3
  · exact h' (v4 t0 h)
  · exact h' (v5 d h)
  · rw [v6] at h; cases h
  · rw [v7] at h; cases h
  · rw [v8] at h; cases h
  · omega
  · omega
  · omega

/-- **C05.invalid_error on the Go code**: whenever the model's validation prefix (`validate`, the checks in
    source order) reports an error, the model's `compute` returns that error for every fuel and the Go `Compute`
    returns `nil, err` for every fuel and all oracles.  (Which Go error message it is, is not part of the
    refinement.) -/
theorem go_compute_src_invalid_error (capO : Nat → Int) (fuel : Nat) (sqrtO : α → α) (nanO infO : α → Bool)
    (c : CSM α) (p : Vec α) (a e : α)
    (o : ComputeOpts α) (tRes : Option (Vec α)) (gs : Option (GFlatTailStats α))
    (hres : o.resultDim = tRes.map (·.dim)) (hcols : c.colsInRange = true)
    (err : SErr) (h : validate c p a e o = some err) :
    compute fuel c p a e o = .error err ∧
    ∃ st msg, Gen.Compute_src capO fuel sqrtO nanO infO (toGM c) (toGV p) a e (toGOpts o tRes gs) =
      .ok (st, (GVector.zero, some msg)) := by
  refine ⟨C05.invalid_error fuel c p a e o err h, ?_⟩
  apply TrSrc.compute_src_refuses_validation capO fuel sqrtO nanO infO c p a e o tRes gs hres hcols
  apply refusal_of_not_valid
  intro hv
  rw [(validate_eq_none_iff c p a e o).mpr hv] at h
  cases h

/-- **C05.compute_nonFinite on the Go code**: all validations pass but a scheduled check meets a non-finite
    delta — the Go `Compute` returns `nil, err`. -/
theorem go_compute_src_nonFinite (capO : Nat → Int) (fuel : Nat) (sqrtO : α → α) (nanO infO : α → Bool)
    (c : CSM α) (p : Vec α) (a e : α) (hO : OracleOK sqrtO nanO infO e)
    (o : ComputeOpts α) (tRes : Option (Vec α)) (gs : Option (GFlatTailStats α))
    (hres : o.resultDim = tRes.map (·.dim)) (hcols : c.colsInRange = true)
    (hap : (Vec.scale a p).entries ≠ [])
    (hv : ValidInput c p a e o) (s : LoopState α) (hl : loopOf fuel c p a e o = (s, .nonFinite))
    (hfuel : c.major + p.entries.length + max (c.major + p.entries.length) (o.t0.getD p).entries.length ≤ fuel)
    (hfuel63 : fuel < 9223372036854775807) :
    ∃ st msg, Gen.Compute_src capO fuel sqrtO nanO infO (toGM c) (toGV p) a e (toGOpts o tRes gs) =
      .ok (st, (GVector.zero, some msg)) :=
  TrSrc.compute_src_refines_err_partial capO fuel sqrtO nanO infO c p a e hO o tRes gs hres hcols hap _
    (C05.compute_nonFinite fuel c p a e o hv s hl) hfuel hfuel63

/-! ## 2. C18 — the statistics the Go code leaves in the statistics object -/

/-- **C18.compute_stats on the Go code.**  The statistics object filled by the Go `Compute` holds the fold,
    over the checks performed (`r.checks`, oldest first), of `FlatTailStats.update` on the observations
    `(ranking of the k-th iterate, squared delta at check k)`, in its source form (`toGStatsSrc sqrtO`: the delta
    under the root); when the run ended by the criteria its `Ranking` is the ranking of the RETURNED vector, its
    `Length` is at least the requested flat tail and its `DeltaNorm` is `sqrtO` of the model's squared delta. -/
theorem go_compute_src_stats (capO : Nat → Int) (fuel : Nat) (sqrtO : α → α) (nanO infO : α → Bool)
    (c : CSM α) (p : Vec α) (a e : α) (hO : OracleOK sqrtO nanO infO e)
    (o : ComputeOpts α) (tRes : Option (Vec α)) (gs : Option (GFlatTailStats α))
    (hres : o.resultDim = tRes.map (·.dim)) (hcols : c.colsInRange = true)
    (hap : (Vec.scale a p).entries ≠ [])
    (r : ComputeResult α) (hr : compute fuel c p a e o = .ok r) (hend : r.endedBy ≠ .outOfFuel)
    (hfuel : c.major + p.entries.length + max (c.major + p.entries.length) (o.t0.getD p).entries.length ≤ fuel)
    (hfuel63 : fuel < 9223372036854775807) :
    ∃ st, Gen.Compute_src capO fuel sqrtO nanO infO (toGM c) (toGV p) a e (toGOpts o tRes gs) =
        .ok (st, (toGV r.t, none)) ∧
      st.flatTailStats = toGStatsSrc sqrtO (ftFold (r.checks.map (obsAtOf c p a o))) ∧
      (r.endedBy = .criteria →
        st.flatTailStats.Ranking = (rankOf r.t.entries (nlOf c o)).map (fun (i : Nat) => (i : Int)) ∧
        (o.flatTail : Int) ≤ st.flatTailStats.Length ∧
        st.flatTailStats.DeltaNorm = sqrtO r.stats.deltaSq) := by
  obtain ⟨st, hst, hstats⟩ :=
    go_compute_src_returns capO fuel sqrtO nanO infO c p a e hO o tRes gs hres hcols hap r hr hend hfuel hfuel63
  obtain ⟨h1, h2⟩ := C18.compute_stats fuel c p a e o r hr
  refine ⟨st, hst, ?_, ?_⟩
  · rw [hstats]; exact congrArg (toGStatsSrc sqrtO) h1
  · intro hb
    obtain ⟨hrk, hlen⟩ := h2 hb
    rw [hstats]
    refine ⟨?_, ?_, toGStatsSrc_DeltaNorm sqrtO r.stats _ hrk⟩
    · rw [toGStatsSrc_Ranking, hrk]; rfl
    · rw [toGStatsSrc_Length]
      exact_mod_cast hlen

/-- **C18.ft_length / ft_ranking / ft_delta / ft_threshold on the Go code.**  When at least one check was
    performed, the statistics `S` the Go `Compute` leaves (`st.flatTailStats = toGStatsSrc sqrtO S`) are, in terms
    of the decomposition `runs obs` of the observed `(ranking, squared delta)` sequence into maximal runs of
    equal rankings: `Length` = size of the final run − 1; `Ranking` = the ranking of the final run = the last
    observed ranking; `DeltaNorm` = `sqrtO` of the squared delta at the head of the final run (a ranking has been
    recorded, so the root has been taken: last conjunct); `Threshold` = `max 1` (sizes of all earlier runs),
    i.e. one more than the longest broken run, at least 1. -/
theorem go_compute_src_stats_fields (capO : Nat → Int) (fuel : Nat) (sqrtO : α → α) (nanO infO : α → Bool)
    (c : CSM α) (p : Vec α) (a e : α) (hO : OracleOK sqrtO nanO infO e)
    (o : ComputeOpts α) (tRes : Option (Vec α)) (gs : Option (GFlatTailStats α))
    (hres : o.resultDim = tRes.map (·.dim)) (hcols : c.colsInRange = true)
    (hap : (Vec.scale a p).entries ≠ [])
    (r : ComputeResult α) (hr : compute fuel c p a e o = .ok r) (hend : r.endedBy ≠ .outOfFuel)
    (hfuel : c.major + p.entries.length + max (c.major + p.entries.length) (o.t0.getD p).entries.length ≤ fuel)
    (hfuel63 : fuel < 9223372036854775807)
    (hne : r.checks.map (obsAtOf c p a o) ≠ []) :
    ∃ st S, Gen.Compute_src capO fuel sqrtO nanO infO (toGM c) (toGV p) a e (toGOpts o tRes gs) =
        .ok (st, (toGV r.t, none)) ∧
      st.flatTailStats = toGStatsSrc sqrtO S ∧
      S.length + 1 = ((runs (r.checks.map (obsAtOf c p a o))).getLast (runs_ne_nil hne)).2.2 ∧
      S.ranking = some ((runs (r.checks.map (obsAtOf c p a o))).getLast (runs_ne_nil hne)).1 ∧
      S.ranking = some ((r.checks.map (obsAtOf c p a o)).getLast hne).1 ∧
      S.deltaSq = ((runs (r.checks.map (obsAtOf c p a o))).getLast (runs_ne_nil hne)).2.1 ∧
      S.threshold = ((runs (r.checks.map (obsAtOf c p a o))).dropLast.map (·.2.2)).foldl max 1 ∧
      1 ≤ S.threshold ∧
      (∀ x ∈ (runs (r.checks.map (obsAtOf c p a o))).dropLast, x.2.2 ≤ S.threshold) ∧
      (S.threshold = 1 ∨ ∃ x ∈ (runs (r.checks.map (obsAtOf c p a o))).dropLast, x.2.2 = S.threshold) ∧
      st.flatTailStats.Length = (S.length : Int) ∧
      st.flatTailStats.Threshold = (S.threshold : Int) ∧
      st.flatTailStats.Ranking =
        (((r.checks.map (obsAtOf c p a o)).getLast hne).1).map (fun (i : Nat) => (i : Int)) ∧
      st.flatTailStats.DeltaNorm =
        sqrtO ((runs (r.checks.map (obsAtOf c p a o))).getLast (runs_ne_nil hne)).2.1 := by
  obtain ⟨st, hst, hstats, _⟩ :=
    go_compute_src_stats capO fuel sqrtO nanO infO c p a e hO o tRes gs hres hcols hap r hr hend hfuel hfuel63
  obtain ⟨t1, t2, t3, t4⟩ := C18.ft_threshold (r.checks.map (obsAtOf c p a o))
  have hrk := (C18.ft_ranking _ hne).2
  refine ⟨st, _, hst, hstats, C18.ft_length _ hne, (C18.ft_ranking _ hne).1, hrk,
    C18.ft_delta _ hne, t1, t2, t3, t4, ?_, ?_, ?_, ?_⟩
  · rw [hstats, toGStatsSrc_Length]
  · rw [hstats, toGStatsSrc_Threshold]
  · rw [hstats, toGStatsSrc_Ranking, hrk]; rfl
  · rw [hstats, toGStatsSrc_DeltaNorm sqrtO _ _ hrk, C18.ft_delta _ hne]

/-- **C18.ft_stop on the Go code.**  A Go run whose model run ended by the criteria returned the iterate of a
    scheduled check (strictly before the iteration limit) at which convergence holds and the flat tail is
    reached — the statistics object (the model's in source form: `DeltaNorm` is `sqrtO` of the model's squared
    delta, second conjunct) has `Length ≥ flatTail`, the last `flatTail + 1` checked rankings are identical — and
    at no earlier scheduled check was the delta non-finite or did both hold. -/
theorem go_compute_src_criteria_stop (capO : Nat → Int) (fuel : Nat) (sqrtO : α → α) (nanO infO : α → Bool)
    (c : CSM α) (p : Vec α) (a e : α) (hO : OracleOK sqrtO nanO infO e)
    (o : ComputeOpts α) (tRes : Option (Vec α)) (gs : Option (GFlatTailStats α))
    (hres : o.resultDim = tRes.map (·.dim)) (hcols : c.colsInRange = true)
    (hap : (Vec.scale a p).entries ≠ [])
    (r : ComputeResult α) (hr : compute fuel c p a e o = .ok r) (hcr : r.endedBy = .criteria)
    (hfuel : c.major + p.entries.length + max (c.major + p.entries.length) (o.t0.getD p).entries.length ≤ fuel)
    (hfuel63 : fuel < 9223372036854775807) :
    ∃ st, Gen.Compute_src capO fuel sqrtO nanO infO (toGM c) (toGV p) a e (toGOpts o tRes gs) =
        .ok (st, (toGV ⟨c.major, iterOf c p a o r.iters⟩, none)) ∧
      (st.flatTailStats = toGStatsSrc sqrtO r.stats ∧ st.flatTailStats.DeltaNorm = sqrtO r.stats.deltaSq) ∧
      isCheck (minIOf o) (freqOf o) r.iters = true ∧ (∀ m, maxIOf o = some m → r.iters < m) ∧
      convergedAtOf c p a e o r.iters = true ∧
      o.flatTail ≤ r.stats.length ∧
      (o.flatTail + 1 ≤ (r.checks.map (obsAtOf c p a o)).length ∧
        ∃ rk, ∀ ob ∈ (r.checks.map (obsAtOf c p a o)).drop
          ((r.checks.map (obsAtOf c p a o)).length - (o.flatTail + 1)), ob.1 = rk) ∧
      (∀ k, k < r.iters → isCheck (minIOf o) (freqOf o) k = true →
        nonFiniteAtOf c p a o k = false ∧
        ¬ (convergedAtOf c p a e o k = true ∧ flatAtOf c p a o k = true)) := by
  have hend : r.endedBy ≠ .outOfFuel := by rw [hcr]; decide
  obtain ⟨st, hst, hstats⟩ :=
    go_compute_src_returns capO fuel sqrtO nanO infO c p a e hO o tRes gs hres hcols hap r hr hend hfuel hfuel63
  obtain ⟨_, ht, _, _, s, hl, hit, hs, hch⟩ := C05.compute_spec fuel c p a e o r hr
  rw [hcr] at hl
  have hl' : computeLoop c.transpose.rows (Vec.scale a p).entries (sub one a) e (minIOf o) (freqOf o)
      (maxIOf o) o.flatTail (nlOf c o) fuel (initState (o.t0.getD p).entries) = (s, .criteria) := hl
  obtain ⟨f1, f2, f3, f4, f5, f6⟩ := C18.ft_stop _ _ _ _ _ _ _ _ _ fuel _ s hl'
  have hrk := ((C18.compute_stats fuel c p a e o r hr).2 hcr).1
  refine ⟨st, by rw [hst, ht], ⟨hstats, by rw [hstats]; exact toGStatsSrc_DeltaNorm sqrtO r.stats _ hrk⟩,
    ?_, ?_, ?_, ?_, ?_, ?_⟩
  · rw [hit]; exact f1
  · rw [hit]; exact f2
  · rw [hit]; exact f3
  · rw [hs]; exact f4
  · rw [hch]; exact f5
  · rw [hit]; exact f6

/-- **C18.ft_stop_first on the Go code** (converse): if all validations pass and `K < fuel` is a scheduled
    check before the iteration limit with a finite delta at which convergence holds and the flat tail is
    reached, and at no earlier scheduled check the delta was non-finite or both held, then the Go `Compute`
    returns (nil error) exactly the `K`-th iterate, the model run being ended by the criteria after `K`
    iterations. -/
theorem go_compute_src_criteria_first (capO : Nat → Int) (fuel : Nat) (sqrtO : α → α) (nanO infO : α → Bool)
    (c : CSM α) (p : Vec α) (a e : α) (hO : OracleOK sqrtO nanO infO e)
    (o : ComputeOpts α) (tRes : Option (Vec α)) (gs : Option (GFlatTailStats α))
    (hres : o.resultDim = tRes.map (·.dim)) (hcols : c.colsInRange = true)
    (hap : (Vec.scale a p).entries ≠ [])
    (hv : ValidInput c p a e o) (K : Nat) (hK : K < fuel)
    (hmax : ∀ m, maxIOf o = some m → K < m)
    (hcheck : isCheck (minIOf o) (freqOf o) K = true)
    (hfin : nonFiniteAtOf c p a o K = false)
    (hconv : convergedAtOf c p a e o K = true)
    (hflat : flatAtOf c p a o K = true)
    (hbefore : ∀ k, k < K → isCheck (minIOf o) (freqOf o) k = true →
      nonFiniteAtOf c p a o k = false ∧
      ¬ (convergedAtOf c p a e o k = true ∧ flatAtOf c p a o k = true))
    (hfuel : c.major + p.entries.length + max (c.major + p.entries.length) (o.t0.getD p).entries.length ≤ fuel)
    (hfuel63 : fuel < 9223372036854775807) :
    ∃ st r, compute fuel c p a e o = .ok r ∧ r.iters = K ∧ r.endedBy = .criteria ∧
      Gen.Compute_src capO fuel sqrtO nanO infO (toGM c) (toGV p) a e (toGOpts o tRes gs) =
        .ok (st, (toGV ⟨c.major, iterOf c p a o K⟩, none)) ∧
      st.flatTailStats = toGStatsSrc sqrtO r.stats := by
  cases hl : loopOf fuel c p a e o with
  | mk s by_ =>
    have hl' : computeLoop c.transpose.rows (Vec.scale a p).entries (sub one a) e (minIOf o) (freqOf o)
        (maxIOf o) o.flatTail (nlOf c o) fuel (initState (o.t0.getD p).entries) = (s, by_) := hl
    obtain ⟨h1, h2⟩ := C18.ft_stop_first _ _ _ _ _ _ _ _ _ fuel _ K hK hmax hcheck hfin hconv hflat
      hbefore s by_ hl'
    subst h2
    have hit := C05.loop_returns_iterate_init _ _ _ _ _ _ _ _ _ fuel _ s _ hl'
    have hr := compute_ok_of_loop fuel c p a e o hv s _ hl (by decide)
    obtain ⟨st, hst, hstats⟩ :=
      go_compute_src_returns capO fuel sqrtO nanO infO c p a e hO o tRes gs hres hcols hap _ hr
      (by simp) hfuel hfuel63
    refine ⟨st, _, hr, h1, rfl, ?_, hstats⟩
    rw [hst]
    simp only [hit, h1]

end scalar

/-! ## 3. ordered fields: no non-finite delta; the ranking lists the top-scored peers -/

section field
variable {K : Type} [Field K] [LinearOrder K]

/-- **C05.stopIter_first + C05b.nonFinite_never on the Go code**: in exact arithmetic no delta is non-finite,
    so the first iteration `K < fuel` at which the limit is reached or a scheduled check ends the loop is the
    iteration whose iterate the Go `Compute` returns. -/
theorem go_compute_src_stop_first_exact (capO : Nat → Int) (fuel : Nat) (sqrtO : K → K) (nanO infO : K → Bool)
    (c : CSM K) (p : Vec K) (a e : K) (hO : OracleOK sqrtO nanO infO e)
    (o : ComputeOpts K) (tRes : Option (Vec K)) (gs : Option (GFlatTailStats K))
    (hres : o.resultDim = tRes.map (·.dim)) (hcols : c.colsInRange = true)
    (hap : (Vec.scale a p).entries ≠ [])
    (hv : ValidInput c p a e o) (K' : Nat) (hK : K' < fuel)
    (hbefore : ∀ k, k < K' → maxHit (maxIOf o) k = false ∧ stopAtOf c p a e o k = false)
    (hat : maxHit (maxIOf o) K' = true ∨ stopAtOf c p a e o K' = true)
    (hfuel : c.major + p.entries.length + max (c.major + p.entries.length) (o.t0.getD p).entries.length ≤ fuel)
    (hfuel63 : fuel < 9223372036854775807) :
    ∃ st r, compute fuel c p a e o = .ok r ∧ r.iters = K' ∧
      (r.endedBy = .maxIterations ↔ maxHit (maxIOf o) K' = true) ∧
      (r.endedBy = .maxIterations ∨ r.endedBy = .criteria) ∧
      Gen.Compute_src capO fuel sqrtO nanO infO (toGM c) (toGV p) a e (toGOpts o tRes gs) =
        .ok (st, (toGV ⟨c.major, iterOf c p a o K'⟩, none)) ∧
      st.flatTailStats = toGStatsSrc sqrtO r.stats :=
  go_compute_src_stop_first capO fuel sqrtO nanO infO c p a e hO o tRes gs hres hcols hap hv K' hK hbefore hat
    (.inr (C05b.nonFinite_never _)) hfuel hfuel63

/-- **C18.ft_ranking_top / ft_ranking_dominates on the Go code.**  A Go run whose model run ended by the
    criteria and whose returned vector has pairwise distinct stored values leaves in the statistics object
    the ranking of the RETURNED vector: `min numLeaders nnz` peers; the stored entries split into `rest ++ top`
    with the ranking = the indices of `top`, `top` strictly increasing in score and every entry of `rest`
    scoring strictly below every entry of `top`; with distinct indices, a listed peer scores strictly higher
    than every unlisted one. -/
theorem go_compute_src_ranking_top (capO : Nat → Int) (fuel : Nat) (sqrtO : K → K) (nanO infO : K → Bool)
    (c : CSM K) (p : Vec K) (a e : K) (hO : OracleOK sqrtO nanO infO e)
    (o : ComputeOpts K) (tRes : Option (Vec K)) (gs : Option (GFlatTailStats K))
    (hres : o.resultDim = tRes.map (·.dim)) (hcols : c.colsInRange = true)
    (hap : (Vec.scale a p).entries ≠ [])
    (r : ComputeResult K) (hr : compute fuel c p a e o = .ok r) (hcr : r.endedBy = .criteria)
    (hfuel : c.major + p.entries.length + max (c.major + p.entries.length) (o.t0.getD p).entries.length ≤ fuel)
    (hfuel63 : fuel < 9223372036854775807)
    (hval : r.t.entries.Pairwise (fun x y => x.val ≠ y.val)) :
    ∃ st, Gen.Compute_src capO fuel sqrtO nanO infO (toGM c) (toGV p) a e (toGOpts o tRes gs) =
        .ok (st, (toGV r.t, none)) ∧
      st.flatTailStats.Ranking = (rankOf r.t.entries (nlOf c o)).map (fun (i : Nat) => (i : Int)) ∧
      (rankOf r.t.entries (nlOf c o)).length = min (nlOf c o) r.t.entries.length ∧
      (∃ rest top : List (Entry K),
        (rest ++ top).Perm r.t.entries ∧ top.length = min (nlOf c o) r.t.entries.length ∧
        rankOf r.t.entries (nlOf c o) = top.map (·.idx) ∧
        top.Pairwise (fun x y => x.val < y.val) ∧
        ∀ x ∈ rest, ∀ y ∈ top, x.val < y.val) ∧
      ((r.t.entries.map (·.idx)).Nodup → ∀ x y : Entry K, x ∈ r.t.entries → y ∈ r.t.entries →
        y.idx ∈ rankOf r.t.entries (nlOf c o) → x.idx ∉ rankOf r.t.entries (nlOf c o) → x.val < y.val) := by
  have hend : r.endedBy ≠ .outOfFuel := by rw [hcr]; decide
  obtain ⟨st, hst, _, hrk⟩ :=
    go_compute_src_stats capO fuel sqrtO nanO infO c p a e hO o tRes gs hres hcols hap r hr hend hfuel hfuel63
  obtain ⟨hlen, htop⟩ := C18.ft_ranking_top r.t.entries (nlOf c o) hval
  exact ⟨st, hst, (hrk hcr).1, hlen, htop,
    fun hidx x y hx hy hyr hxr => C18.ft_ranking_dominates r.t.entries (nlOf c o) hval hidx x y hx hy hyr hxr⟩

/-- **C18.ft_ranking_all on the Go code**: with `numLeaders = 0` (replaced by `n`) or `numLeaders ≥ nnz`, the
    ranking left by a run ended by the criteria lists every stored peer of the returned vector, in ascending
    score order. -/
theorem go_compute_src_ranking_all (capO : Nat → Int) (fuel : Nat) (sqrtO : K → K) (nanO infO : K → Bool)
    (c : CSM K) (p : Vec K) (a e : K) (hO : OracleOK sqrtO nanO infO e)
    (o : ComputeOpts K) (tRes : Option (Vec K)) (gs : Option (GFlatTailStats K))
    (hres : o.resultDim = tRes.map (·.dim)) (hcols : c.colsInRange = true)
    (hap : (Vec.scale a p).entries ≠ [])
    (r : ComputeResult K) (hr : compute fuel c p a e o = .ok r) (hcr : r.endedBy = .criteria)
    (hfuel : c.major + p.entries.length + max (c.major + p.entries.length) (o.t0.getD p).entries.length ≤ fuel)
    (hfuel63 : fuel < 9223372036854775807)
    (hnl : r.t.entries.length ≤ nlOf c o) :
    ∃ st, Gen.Compute_src capO fuel sqrtO nanO infO (toGM c) (toGV p) a e (toGOpts o tRes gs) =
        .ok (st, (toGV r.t, none)) ∧
      st.flatTailStats.Ranking = ((sortByVal r.t.entries).map (·.idx)).map (fun (i : Nat) => (i : Int)) ∧
      (sortByVal r.t.entries).Perm r.t.entries ∧
      (sortByVal r.t.entries).Pairwise (fun x y => x.val ≤ y.val) := by
  have hend : r.endedBy ≠ .outOfFuel := by rw [hcr]; decide
  obtain ⟨st, hst, _, hrk⟩ :=
    go_compute_src_stats capO fuel sqrtO nanO infO c p a e hO o tRes gs hres hcols hap r hr hend hfuel hfuel63
  obtain ⟨h1, h2, h3⟩ := C18.ft_ranking_all r.t.entries (nlOf c o) hnl
  exact ⟨st, hst, by rw [(hrk hcr).1, h1], h2, h3⟩

end field

/-! ## 4. ℝ: termination within the documented bound (C05b) and distance from the fixed point (C01b) -/

section real
open EtVerif.Dense EtVerif.C01b

/-- the fuel hypothesis of the refinement under the default options (start vector `p`): `max (n + |p|) |p|` is
    `n + |p|` -/
theorem fuel_default {n m fuel : Nat} (h : n + m + (n + m) ≤ fuel) : n + m + max (n + m) m ≤ fuel := by
  rw [Nat.max_eq_left (Nat.le_add_left _ _)]; exact h

/-- **C05 termination on the Go code, general form.**  Canonical inputs, `0 < a < 1`, `0 < e`, options leaving
    the default schedule in force, `N = ⌈ln(e/4)/ln(1-a)⌉`: there is ONE model run `r`, ended by the criteria
    with `1 ≤ r.iters ≤ N + 2`, such that for EVERY fuel above `N + 2` (and above the merge-loop bound — the
    stronger one of this file —, below `2^63 − 1`) the Go `Compute` returns — no panic, nil error, not for lack
    of fuel — the vector and statistics of `r`: the Go loop stops by its own criteria within the documented
    number of iterations, and the result does not depend on the fuel.  `hO` is about the `e` given. -/
theorem go_compute_src_terminates_schedule (capO : Nat → Int) (n : Nat) (hn : 1 ≤ n)
    (sqrtO : ℝ → ℝ) (nanO infO : ℝ → Bool)
    (c : CSM ℝ) (p : Vec ℝ)
    (a e : ℝ) (hO : OracleOK sqrtO nanO infO e)
    (o : ComputeOpts ℝ) (tRes : Option (Vec ℝ)) (gs : Option (GFlatTailStats ℝ))
    (hres : o.resultDim = tRes.map (·.dim)) (hcols : c.colsInRange = true)
    (hap : (Vec.scale a p).entries ≠ [])
    (hc : Canon n c p) (ha0 : 0 < a) (ha1 : a < 1) (he : 0 < e) (hs : DefaultSchedule o)
    (ht0 : ∀ t0, o.t0 = some t0 → t0.dim = n ∧ Dist n t0.entries)
    (hrd : ∀ d, o.resultDim = some d → d = n) :
    ∃ r : ComputeResult ℝ, r.endedBy = .criteria ∧ 1 ≤ r.iters ∧
      r.iters ≤ ⌈Real.log (e / 4) / Real.log (1 - a)⌉₊ + 2 ∧
      ∀ fuel, ⌈Real.log (e / 4) / Real.log (1 - a)⌉₊ + 2 < fuel →
        c.major + p.entries.length + max (c.major + p.entries.length) (o.t0.getD p).entries.length ≤ fuel →
        fuel < 9223372036854775807 →
        ∃ st, Gen.Compute_src capO fuel sqrtO nanO infO (toGM c) (toGV p) a e (toGOpts o tRes gs) =
            .ok (st, (toGV r.t, none)) ∧
          st.flatTailStats = toGStatsSrc sqrtO r.stats := by
  obtain ⟨r, hcr, h1, h2, hall⟩ := C05b.compute_terminates_schedule n hn c p a e o hc ha0 ha1 he hs ht0 hrd
  refine ⟨r, hcr, h1, h2, fun fuel hf hfuel hfuel63 => ?_⟩
  exact go_compute_src_returns capO fuel sqrtO nanO infO c p a e hO o tRes gs hres hcols hap r (hall fuel hf)
    (by rw [hcr]; decide) hfuel hfuel63

/-- **C05 termination on the Go code, default options** (no option given: start vector `p`, no limits, no
    flat tail, a check after every iteration): for every admissible fuel `> N + 2` the Go `Compute` returns a
    vector with nil error, the model run being ended by the criteria after between 1 and `N + 2` iterations. -/
theorem go_compute_src_terminates_default (capO : Nat → Int) (n : Nat) (hn : 1 ≤ n)
    (sqrtO : ℝ → ℝ) (nanO infO : ℝ → Bool)
    (c : CSM ℝ) (p : Vec ℝ)
    (a e : ℝ) (hO : OracleOK sqrtO nanO infO e) (gs : Option (GFlatTailStats ℝ)) (hcols : c.colsInRange = true)
    (hap : (Vec.scale a p).entries ≠ [])
    (hc : Canon n c p) (ha0 : 0 < a) (ha1 : a < 1) (he : 0 < e) (fuel : Nat)
    (hf : ⌈Real.log (e / 4) / Real.log (1 - a)⌉₊ + 2 < fuel)
    (hfuel : c.major + p.entries.length + (c.major + p.entries.length) ≤ fuel)
    (hfuel63 : fuel < 9223372036854775807) :
    ∃ st r, compute fuel c p a e {} = .ok r ∧ r.endedBy = .criteria ∧ 1 ≤ r.iters ∧
      r.iters ≤ ⌈Real.log (e / 4) / Real.log (1 - a)⌉₊ + 2 ∧
      Gen.Compute_src capO fuel sqrtO nanO infO (toGM c) (toGV p) a e (toGOpts {} none gs) =
          .ok (st, (toGV r.t, none)) ∧
      st.flatTailStats = toGStatsSrc sqrtO r.stats := by
  obtain ⟨r, hr, hcr, h1, h2⟩ := C05b.compute_terminates_default n hn c p a e hc ha0 ha1 he fuel hf
  obtain ⟨st, hst, hstats⟩ :=
    go_compute_src_returns capO fuel sqrtO nanO infO c p a e hO {} none gs rfl hcols hap r hr
    (by rw [hcr]; decide) (fuel_default hfuel) hfuel63
  exact ⟨st, r, hr, hcr, h1, h2, hst, hstats⟩

/-- … with an initial vector (`WithInitialTrust`), a distribution of dimension `n`: same bound. -/
theorem go_compute_src_terminates_with_t0 (capO : Nat → Int) (n : Nat) (hn : 1 ≤ n)
    (sqrtO : ℝ → ℝ) (nanO infO : ℝ → Bool)
    (c : CSM ℝ) (p : Vec ℝ)
    (a e : ℝ) (hO : OracleOK sqrtO nanO infO e)
    (t0 : Vec ℝ) (gs : Option (GFlatTailStats ℝ)) (hcols : c.colsInRange = true)
    (hap : (Vec.scale a p).entries ≠ [])
    (hc : Canon n c p) (ha0 : 0 < a) (ha1 : a < 1) (he : 0 < e)
    (hdim : t0.dim = n) (ht0 : Dist n t0.entries) (fuel : Nat)
    (hf : ⌈Real.log (e / 4) / Real.log (1 - a)⌉₊ + 2 < fuel)
    (hfuel : c.major + p.entries.length + max (c.major + p.entries.length) t0.entries.length ≤ fuel)
    (hfuel63 : fuel < 9223372036854775807) :
    ∃ st r, compute fuel c p a e { t0 := some t0 } = .ok r ∧ r.endedBy = .criteria ∧ 1 ≤ r.iters ∧
      r.iters ≤ ⌈Real.log (e / 4) / Real.log (1 - a)⌉₊ + 2 ∧
      Gen.Compute_src capO fuel sqrtO nanO infO (toGM c) (toGV p) a e (toGOpts { t0 := some t0 } none gs) =
        .ok (st, (toGV r.t, none)) ∧
      st.flatTailStats = toGStatsSrc sqrtO r.stats := by
  obtain ⟨r, hr, hcr, h1, h2⟩ :=
    C05b.compute_terminates_with_t0 n hn c p a e t0 hc ha0 ha1 he hdim ht0 fuel hf
  obtain ⟨st, hst, hstats⟩ :=
    go_compute_src_returns capO fuel sqrtO nanO infO c p a e hO { t0 := some t0 } none gs rfl hcols hap
    r hr (by rw [hcr]; decide) hfuel hfuel63
  exact ⟨st, r, hr, hcr, h1, h2, hst, hstats⟩

/-- **`a = 1`** on the Go code: every iterate from the first on is `p`; the Go `Compute` returns after at most 2
    iterations (any admissible fuel `> 2`, any `e > 0`). -/
theorem go_compute_src_terminates_alpha_one (capO : Nat → Int) (n : Nat) (hn : 1 ≤ n)
    (sqrtO : ℝ → ℝ) (nanO infO : ℝ → Bool)
    (c : CSM ℝ) (p : Vec ℝ)
    (e : ℝ) (hO : OracleOK sqrtO nanO infO e) (gs : Option (GFlatTailStats ℝ)) (hcols : c.colsInRange = true)
    (hap : (Vec.scale (1 : ℝ) p).entries ≠ [])
    (hc : Canon n c p) (he : 0 < e) (fuel : Nat) (hf : 2 < fuel)
    (hfuel : c.major + p.entries.length + (c.major + p.entries.length) ≤ fuel)
    (hfuel63 : fuel < 9223372036854775807) :
    ∃ st r, compute fuel c p 1 e {} = .ok r ∧ r.endedBy = .criteria ∧ 1 ≤ r.iters ∧ r.iters ≤ 2 ∧
      Gen.Compute_src capO fuel sqrtO nanO infO (toGM c) (toGV p) 1 e (toGOpts {} none gs) =
          .ok (st, (toGV r.t, none)) ∧
      st.flatTailStats = toGStatsSrc sqrtO r.stats := by
  obtain ⟨r, hr, hcr, h1, h2⟩ := C05b.compute_terminates_alpha_one n hn c p e hc he fuel hf
  obtain ⟨st, hst, hstats⟩ :=
    go_compute_src_returns capO fuel sqrtO nanO infO c p 1 e hO {} none gs rfl hcols hap r hr
    (by rw [hcr]; decide) (fuel_default hfuel) hfuel63
  exact ⟨st, r, hr, hcr, h1, h2, hst, hstats⟩

/-- **C05b.compute_terminates_first on the Go code**: under the default options the iterate the Go `Compute`
    returns is the one of the FIRST iteration `≥ 1` at which the convergence verdict holds — the loop does not
    run past the first successful check. -/
theorem go_compute_src_terminates_first (capO : Nat → Int) (n : Nat) (hn : 1 ≤ n)
    (sqrtO : ℝ → ℝ) (nanO infO : ℝ → Bool)
    (c : CSM ℝ) (p : Vec ℝ)
    (a e : ℝ) (hO : OracleOK sqrtO nanO infO e) (gs : Option (GFlatTailStats ℝ)) (hcols : c.colsInRange = true)
    (hap : (Vec.scale a p).entries ≠ [])
    (hc : Canon n c p) (ha0 : 0 < a) (ha1 : a < 1) (he : 0 < e) (fuel : Nat)
    (hf : ⌈Real.log (e / 4) / Real.log (1 - a)⌉₊ + 2 < fuel)
    (hfuel : c.major + p.entries.length + (c.major + p.entries.length) ≤ fuel)
    (hfuel63 : fuel < 9223372036854775807) :
    ∃ st r, compute fuel c p a e {} = .ok r ∧ r.endedBy = .criteria ∧
      Gen.Compute_src capO fuel sqrtO nanO infO (toGM c) (toGV p) a e (toGOpts {} none gs) =
          .ok (st, (toGV r.t, none)) ∧
      convergedAt c.transpose.rows (Vec.scale a p).entries (1 - a) e 1 1 p.entries r.iters = true ∧
      ∀ K', 1 ≤ K' → K' < r.iters →
        convergedAt c.transpose.rows (Vec.scale a p).entries (1 - a) e 1 1 p.entries K' = false := by
  obtain ⟨r, hr, hcr, h1, h2⟩ := C05b.compute_terminates_first n hn c p a e hc ha0 ha1 he fuel hf
  obtain ⟨st, hst, _⟩ := go_compute_src_returns capO fuel sqrtO nanO infO c p a e hO {} none gs rfl hcols hap r hr
    (by rw [hcr]; decide) (fuel_default hfuel) hfuel63
  exact ⟨st, r, hr, hcr, hst, h1, h2⟩

/-- **C01 on the Go code.**  Canonical `c`, `p` of dimension `n`, `0 < a`, a well-formed initial vector when one
    is given: a Go run whose model run ended by the exit criteria — with any check schedule, iteration limit
    and flat-tail setting — returns (nil error) a vector within `((1-a)/a)·√n·e` (L1) of every solution `t*` of
    `t = (1-a)·Cᵀt + a·p`. -/
theorem go_compute_src_converged_bound (capO : Nat → Int) (n fuel : Nat) (sqrtO : ℝ → ℝ) (nanO infO : ℝ → Bool)
    (c : CSM ℝ) (p : Vec ℝ) (a e : ℝ) (hO : OracleOK sqrtO nanO infO e)
    (o : ComputeOpts ℝ) (tRes : Option (Vec ℝ)) (gs : Option (GFlatTailStats ℝ))
    (hres : o.resultDim = tRes.map (·.dim)) (hcols : c.colsInRange = true)
    (hap : (Vec.scale a p).entries ≠ [])
    (hc : Canon n c p) (ha0 : 0 < a) (ht0 : ∀ t0, o.t0 = some t0 → WF n t0.entries)
    (r : ComputeResult ℝ) (hr : compute fuel c p a e o = .ok r) (hcr : r.endedBy = .criteria)
    (hfuel : c.major + p.entries.length + max (c.major + p.entries.length) (o.t0.getD p).entries.length ≤ fuel)
    (hfuel63 : fuel < 9223372036854775807)
    (tstar : Fin n → ℝ) (hstar : tstar = F (denseC n c) (toDense n p.entries) a tstar) :
    ∃ st, Gen.Compute_src capO fuel sqrtO nanO infO (toGM c) (toGV p) a e (toGOpts o tRes gs) =
        .ok (st, (toGV r.t, none)) ∧
      l1 (toDense n r.t.entries - tstar) ≤ ((1 - a) / a) * Real.sqrt n * e := by
  obtain ⟨st, hst, _⟩ := go_compute_src_returns capO fuel sqrtO nanO infO c p a e hO o tRes gs hres hcols hap r hr
    (by rw [hcr]; decide) hfuel hfuel63
  exact ⟨st, hst, C01b.compute_converged_bound n fuel c p a e o hc ha0 ht0 r hr hcr tstar hstar⟩

/-- … with existence and uniqueness of the solution bundled: there is exactly one `t*`, and the vector the Go
    `Compute` returned is within the bound of it. -/
theorem go_compute_src_converged_bound_unique (capO : Nat → Int) (n fuel : Nat) (sqrtO : ℝ → ℝ) (nanO infO : ℝ → Bool)
    (c : CSM ℝ) (p : Vec ℝ)
    (a e : ℝ) (hO : OracleOK sqrtO nanO infO e)
    (o : ComputeOpts ℝ) (tRes : Option (Vec ℝ)) (gs : Option (GFlatTailStats ℝ))
    (hres : o.resultDim = tRes.map (·.dim)) (hcols : c.colsInRange = true)
    (hap : (Vec.scale a p).entries ≠ [])
    (hc : Canon n c p) (ha0 : 0 < a) (ht0 : ∀ t0, o.t0 = some t0 → WF n t0.entries)
    (r : ComputeResult ℝ) (hr : compute fuel c p a e o = .ok r) (hcr : r.endedBy = .criteria)
    (hfuel : c.major + p.entries.length + max (c.major + p.entries.length) (o.t0.getD p).entries.length ≤ fuel)
    (hfuel63 : fuel < 9223372036854775807) :
    ∃ st, Gen.Compute_src capO fuel sqrtO nanO infO (toGM c) (toGV p) a e (toGOpts o tRes gs) =
        .ok (st, (toGV r.t, none)) ∧
      ∃! tstar : Fin n → ℝ, tstar = F (denseC n c) (toDense n p.entries) a tstar ∧
        l1 (toDense n r.t.entries - tstar) ≤ ((1 - a) / a) * Real.sqrt n * e := by
  obtain ⟨st, hst, _⟩ := go_compute_src_returns capO fuel sqrtO nanO infO c p a e hO o tRes gs hres hcols hap r hr
    (by rw [hcr]; decide) hfuel hfuel63
  exact ⟨st, hst, C01b.compute_converged_bound_unique n fuel c p a e o hc ha0 ht0 r hr hcr⟩

/-- **C05 termination + C01 on the Go code**: canonical inputs, `0 < a < 1`, `0 < e`, no option: for every
    admissible fuel `> N + 2` the Go `Compute` returns (nil error) a vector within `((1-a)/a)·√n·e` (L1) of the
    unique solution `t*`. -/
theorem go_compute_src_default_bound (capO : Nat → Int) (n : Nat) (hn : 1 ≤ n) (sqrtO : ℝ → ℝ) (nanO infO : ℝ → Bool)
    (c : CSM ℝ) (p : Vec ℝ)
    (a e : ℝ) (hO : OracleOK sqrtO nanO infO e) (gs : Option (GFlatTailStats ℝ)) (hcols : c.colsInRange = true)
    (hap : (Vec.scale a p).entries ≠ [])
    (hc : Canon n c p) (ha0 : 0 < a) (ha1 : a < 1) (he : 0 < e) (fuel : Nat)
    (hf : ⌈Real.log (e / 4) / Real.log (1 - a)⌉₊ + 2 < fuel)
    (hfuel : c.major + p.entries.length + (c.major + p.entries.length) ≤ fuel)
    (hfuel63 : fuel < 9223372036854775807) :
    ∃ st out, Gen.Compute_src capO fuel sqrtO nanO infO (toGM c) (toGV p) a e (toGOpts {} none gs) =
        .ok (st, (toGV out, none)) ∧
      ∃! tstar : Fin n → ℝ, tstar = F (denseC n c) (toDense n p.entries) a tstar ∧
        l1 (toDense n out.entries - tstar) ≤ ((1 - a) / a) * Real.sqrt n * e := by
  obtain ⟨st, r, hr, hcr, _, _, hst, _⟩ :=
    go_compute_src_terminates_default capO n hn sqrtO nanO infO c p a e hO gs hcols hap hc ha0 ha1 he fuel hf hfuel
      hfuel63
  exact ⟨st, r.t, hst,
    C01b.compute_converged_bound_unique n fuel c p a e {} hc ha0 (fun t0 h => by cases h) r hr hcr⟩

/- Not transported from C01b: `step_refines`, `iterate_refines`, `check_iff_l2`, `denseC_nonneg`,
   `denseC_rowsum`, `toDense_dist`, `fixedpoint_dist` speak about the model's `stepEntries` / `iterate` /
   `deltaSq` or about the dense data only, not about a value `Compute` returns (the loop body of the translated
   `Compute` is not a separate Go function); they enter through `compute_converged_bound`. -/

end real

end EtVerif.TrGoSrc
