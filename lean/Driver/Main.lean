/-
  etdriver: reads one case per line on stdin (`<id> <prop> <op> <inputs…> | <impl observation…>`),
  prints one verdict per line (`<id> P=.. C=.. B=.. [msg]`).  Core-only executable.
-/
import EtVerif.Driver.C09
import EtVerif.Driver.C11
import EtVerif.Driver.C08
import EtVerif.Driver.C06
import EtVerif.Driver.Compute
import EtVerif.Driver.OapiD
import EtVerif.Driver.GrpcD
import EtVerif.Driver.FeD
import EtVerif.Driver.C12D

open EtVerif EtVerif.Driver

def judgeLine (line : String) : String :=
  let toks := (line.splitOn " ").filter (· ≠ "")
  match toks with
  | id :: prop :: op :: rest =>
    let p : P Verdict := match prop with
      | "C09" => judgeC09 op
      | "C01" | "C02" | "C05" | "C18" | "C03" | "C13" | "C14" | "C15" | "C16" | "C17" | "C19" | "C20" =>
        (if op == "compute" then judgeCompute prop
         else if op == "oapi" then judgeOapi prop
         else if op == "hist" then judgeStoreHist
         else if op == "isolate" then judgeIsolate
         else if op == "ghist" then judgeGHist prop
         else if op == "upload" then judgeUpload
         else if op == "cli" then judgeCli
         else if op == "readlt" then judgeReadLT
         else if op == "oapicsv" then judgeOapiCsv
         else if op == "readnames" then judgeReadNames
         else if op == "pipeline" then judgePipeline
         else if op == "conc" then judgeConc
         else if op == "state" then judgeState
         else if op == "bytes" then judgeBytes
         else throw s!"unknown op {op}")
      | "C10" => judgeC10 op
      | "C12" => (if op == "hist" then judgeMmapHist else if op == "srv" then judgeMmapSrv else throw s!"unknown op {op}")
      | "C11" => judgeC11 op
      | "C08" => (if op == "oapi" then judgeOapi "C08" else judgeC08 op)
      | "C04" => judgeC04 op
      | "C06" => judgeC06 op
      | "C07" => judgeC07 op
      | _ => throw s!"unknown property {prop}"
    match p.run rest with
    | .ok (v, []) => s!"{id} {v.render}"
    | .ok (v, extra) => s!"{id} ERR trailing tokens {extra.length} after {v.render}"
    | .error e => s!"{id} ERR {e}"
  | _ => "? ERR malformed line"

partial def loop (h : IO.FS.Stream) (out : IO.FS.Stream) : IO Unit := do
  let line ← h.getLine
  if line.isEmpty then return ()
  let l := line.trimAscii.toString
  if !l.isEmpty then out.putStrLn (judgeLine l)
  loop h out

def main : IO Unit := do
  let out ← IO.getStdout
  loop (← IO.getStdin) out
  out.flush
