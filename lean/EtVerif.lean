-- Root of the `EtVerif` library: model, specs, proofs, property theorems, audits.
import EtVerif.Model.Scalar
import EtVerif.Model.Sparse
import EtVerif.Model.Basic
