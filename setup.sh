#!/bin/sh
# Offline setup after a fresh restore: build the Lean project (model, proofs, driver) and warm
# the Go build cache for the harness.  Nothing is fetched.
set -e
cd "$(dirname "$0")"
export GOFLAGS=-mod=mod GOPROXY=off GOSUMDB=off GOTOOLCHAIN=local
export GOCACHE="${GOCACHE:-$PWD/.gocache}"
mkdir -p .build lean/EtVerif/Gen
REPO="${VERIF_REPO:-/repo}"
(cd tools/gofacts && go build -o ../../.build/gofacts . && ../../.build/gofacts "$REPO" > ../../.build/Facts.lean && (cmp -s ../../.build/Facts.lean ../../lean/EtVerif/Gen/Facts.lean || cp ../../.build/Facts.lean ../../lean/EtVerif/Gen/Facts.lean))
(cd tools/go2lean && go build -o ../../.build/go2lean . && ../../.build/go2lean "$REPO" > ../../.build/Translated.lean && (cmp -s ../../.build/Translated.lean ../../lean/EtVerif/Gen/Translated.lean || cp ../../.build/Translated.lean ../../lean/EtVerif/Gen/Translated.lean))
(cd lean && lake build EtVerif etdriver $(ls EtVerif/Props/*.lean | sed 's|/|.|g; s|\.lean$||'))
(cd harness && go build -tags verif -o ../.build/etharness.warm ./cmd/etharness && rm -f ../.build/etharness.warm)
if [ -d tools/gofacts ]; then (cd tools/gofacts && go build -o ../../.build/gofacts.warm . && rm -f ../../.build/gofacts.warm); fi
echo setup done
